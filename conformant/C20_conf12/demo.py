import os, sys; sys.path.insert(0, os.getcwd())  # noqa: E401,E702

"""
Property C20 demo: composite traces (page fault, launch, sampler) reflect exactly the records nested in their
window.  Run as:  cd /tmp/seed12_C20 && /venv/bin/python /tmp/seed_out12/C20/demo.py
Exits 0 on the unchanged and on the changed tree; prints one line with the observable difference of the change.
"""
import random
import struct
from collections import Counter
from uuid import UUID

import pykdebugparser
from pykdebugparser.kevent import Kevent
from pykdebugparser.trace_codes import default_trace_codes
from pykdebugparser.traces_parser import TracesParser
from pykdebugparser.trace_handlers import mach, dyld, perf

print('testing', pykdebugparser.__file__)

CODES = default_trace_codes()
IDS = {name: eventid for eventid, name in CODES.items()}
NONE, START, END = 0, 1, 2
UNKNOWN_ID = 0x0badc0d0
assert UNKNOWN_ID not in CODES

clock = [0]


def kev(eventid, qual, values, tid):
    values = tuple(v & 0xffffffffffffffff for v in values) + (0,) * (4 - len(values))
    clock[0] += 1
    return Kevent(clock[0], struct.pack('<QQQQ', *values), values, tid, eventid | qual, eventid, qual)


def run(events):
    """ Feed the records to a fresh parser, give back the parser and the list of (record, emitted trace). """
    parser = TracesParser(CODES, {}, {})
    out = []
    for ev in events:
        ret = parser.feed(ev)
        if ret is not None:
            out.append((ev, ret))
    return parser, out


def composite(out, end_event):
    found = [t for ev, t in out if ev is end_event]
    assert len(found) == 1, found
    return found[0]


def unrelated(rng, tid):
    """ Records of the same thread that are none of the kinds the composites look for. """
    choice = rng.randrange(5)
    if choice == 0:
        return kev(UNKNOWN_ID, NONE, (1, 2, 3, 4), tid)
    if choice == 1:
        return kev(IDS['MACH_Pageout'], NONE, (0x4000,), tid)
    if choice == 2:
        return kev(IDS['PERF_THD_CSwitch'], NONE, (tid, 77), tid)
    if choice == 3:
        return kev(IDS['DYLD_uuid_map_b'], NONE, (0x1234500000077,), tid)
    return kev(IDS['DYLD_uuid_unmap_a'], NONE, (rng.getrandbits(64), rng.getrandbits(64), 0x7000, 3), tid)


def other_thread(rng, tid):
    """ A record of ANOTHER thread, of a kind the composites do look for: it is not in the window. """
    choice = rng.randrange(4)
    if choice == 0:
        return kev(IDS['RealFaultAddressInternal'], NONE, (0xdead, (0x03 << 8) | 1, 0, 4242), tid + 1)
    if choice == 1:
        return kev(IDS['DYLD_uuid_map_a'], NONE, (1, 2, 0x666000, 9), tid + 1)
    if choice == 2:
        return kev(IDS['PERF_THD_Data'], NONE, (4242, tid + 1, 0, 1), tid + 1)
    return kev(IDS['PERF_STK_UHdr'], NONE, (1, 3), tid + 1)


def mix(rng, tid, nested):
    """ Keep the order of the nested records, sprinkle unrelated / other-thread records between them. """
    window = []
    for ev in nested:
        while rng.random() < 0.4:
            window.append(unrelated(rng, tid) if rng.random() < 0.6 else other_thread(rng, tid))
        window.append(ev)
    while rng.random() < 0.4:
        window.append(unrelated(rng, tid))
    return window


# ---------------------------------------------------------------------------------------------------------------------
# page fault
# ---------------------------------------------------------------------------------------------------------------------
REAL_KINDS = ['RealFaultAddressInternal', 'RealFaultAddressPurgeable', 'RealFaultAddressExternal',
              'RealFaultAddressSharedCache']


def check_vmfault(rng, n_real, result, case):
    tid = 0x100 + case
    nested = []
    for _ in range(n_real):
        kind = rng.choice(REAL_KINDS)
        prot = rng.randrange(0, 8)
        ftype = rng.randrange(1, 12)
        nested.append(kev(IDS[kind], NONE, (rng.getrandbits(40), (rng.randrange(256) << 16) | (prot << 8) | ftype,
                                            rng.getrandbits(20), rng.randrange(1, 5000)), tid))
    start = kev(IDS['MACH_vmfault'], START, (0, rng.getrandbits(40), rng.randrange(2), 0), tid)
    end_type = rng.randrange(1, 12)
    end = kev(IDS['MACH_vmfault'], END, (0, 0, result, end_type), tid)
    window = mix(rng, tid, nested)
    parser, out = run([start] + window + [end])
    trace = composite(out, end)
    assert isinstance(trace, mach.MachVmfault)
    # clause: result and fault type come from the END record
    assert trace.result == result, (trace.result, result)
    if result != 0:
        # A failed fault: the statement only gives the result; nothing more is asserted here.
        str(trace)
        return
    assert trace.fault_type == mach.DbgVmFaultType(end_type), (trace.fault_type, end_type)
    # clause: pid and protection from the FIRST nested real-fault-address record, when its kind is decoded;
    #         omitted when the window has none.
    reals = [ev for ev in window if ev.tid == tid and CODES.get(ev.eventid, '').startswith('RealFaultAddress')]
    assert reals == nested
    if not reals:
        assert trace.pid is None and trace.caller_prot is None, trace
        assert 'pid' not in str(trace)
    else:
        first = reals[0]
        if CODES[first.eventid] in parser.handlers:  # the tool decodes that kind
            assert trace.pid == first.values[3], (trace.pid, first)
            assert list(trace.caller_prot) == mach.to_vm_prot((first.values[1] >> 8) & 0xff), trace
            assert f'pid: {first.values[3]}' in str(trace)
        else:
            assert trace.pid is None and trace.caller_prot is None, trace


# ---------------------------------------------------------------------------------------------------------------------
# launch
# ---------------------------------------------------------------------------------------------------------------------
def check_launch(rng, n_map, n_cache, case):
    tid = 0x200 + case
    nested = []
    for i in range(n_map + n_cache):
        kind = 'DYLD_uuid_map_a' if i < n_map else 'DYLD_uuid_shared_cache_a'
        # distinct load addresses: the order among equal ones is not stated
        nested.append(kev(IDS[kind], NONE, (rng.getrandbits(64), rng.getrandbits(64),
                                            0x100000000 + 0x1000 * (case * 100 + i) * 7919 % 0xfffff000,
                                            rng.randrange(1, 50)), tid))
    assert len({ev.values[2] for ev in nested}) == len(nested)
    rng.shuffle(nested)
    start = kev(IDS['DBG_DYLD_TIMING_LAUNCH_EXECUTABLE'], START, (0, 0x100004000 + case), tid)
    end = kev(IDS['DBG_DYLD_TIMING_LAUNCH_EXECUTABLE'], END, (0, 0), tid)
    window = mix(rng, tid, nested)
    parser, out = run([start] + window + [end])
    trace = composite(out, end)
    assert isinstance(trace, dyld.DyldLaunchExecutable)
    got = [(type(m).__name__, m.uuid, m.load_addr, m.fsid) for m in trace.uuid_map_a]
    names = {'DYLD_uuid_map_a': 'DyldUuidMapA', 'DYLD_uuid_shared_cache_a': 'DyldUuidSharedCacheA'}
    want = [(names[CODES[ev.eventid]], UUID(bytes=ev.data[:16]), ev.values[2], ev.values[3]) for ev in nested]
    # clause: every nested image-map and shared-cache-map record, nothing else ...
    assert Counter(got) == Counter(want), (got, want)
    # ... sorted by load address
    assert [g[2] for g in got] == sorted(w[2] for w in want), got
    assert got == sorted(want, key=lambda w: w[2])


# ---------------------------------------------------------------------------------------------------------------------
# sampler
# ---------------------------------------------------------------------------------------------------------------------
TH_INFO, USTACK = 0x01, 0x08


def check_sampler(rng, flags, n_thd, n_hdr, n_data, case, paired=True):
    tid = 0x300 + case
    thd = [kev(IDS['PERF_THD_Data'], NONE, (rng.randrange(1, 5000), tid, rng.getrandbits(40), rng.randrange(128)), tid)
           for _ in range(n_thd)]
    data = [kev(IDS['PERF_STK_UData'], NONE, [rng.getrandbits(48) for _ in range(4)], tid) for _ in range(n_data)]
    nframes = rng.randrange(0, 4 * n_data + 2)
    hdr = [kev(IDS['PERF_STK_UHdr'], NONE, (rng.randrange(512), nframes + i), tid) for i in range(n_hdr)]
    # any order of the kinds between themselves, the order inside one kind is kept (it is the order of the trace)
    pools = [list(thd), list(hdr), list(data)]
    nested = []
    while any(pools):
        pool = rng.choice([p for p in pools if p])
        nested.append(pool.pop(0))
    window = mix(rng, tid, nested)
    if paired:
        start = kev(IDS['PERF_Event'], START, (flags, case), tid)
        end = kev(IDS['PERF_Event'], END, (0, 0), tid)
        parser, out = run([start] + window + [end])
        trace = composite(out, end)
    else:
        # the variant without a window of its own: a lone record, followed by what would have been nested
        lone = kev(IDS['PERF_Event'], NONE, (flags, case), tid)
        parser, out = run([lone] + window)
        trace = composite(out, lone)
        thd, hdr, data = [], [], []
    assert isinstance(trace, perf.PerfEvent)
    assert trace.actionid == case
    assert trace.sample_what == [s for s in perf.SamplerAction if s.value & flags]
    # clause: thread info exactly when the flags ask for it and the record is in the window
    if flags & TH_INFO and thd:
        assert trace.th_info is not None, trace
        first = thd[0]
        assert (trace.th_info.pid, trace.th_info.tid, trace.th_info.dq_addr) == first.values[:3], trace.th_info
        assert trace.th_info.runmode == [s for s in perf.KperfTiState if s.value & first.values[3] & 0xffff]
        assert parser.threads_pids[first.values[1]] in {ev.values[0] for ev in thd}
    else:
        assert trace.th_info is None, trace
    # clause: user stack exactly when the flags ask for it and the records (its header) are in the window;
    #         header-less and flag-less variants carry none
    if flags & USTACK and hdr:
        assert trace.cs_frames is not None and trace.cs_flags is not None, trace
        frames = [v for ev in data for v in ev.values]
        assert list(trace.cs_frames) == frames[:hdr[0].values[1]], (trace.cs_frames, frames, hdr[0])
        assert list(trace.cs_flags) == [c for c in perf.CallstackFlag if c.value & hdr[0].values[0]]
        assert f'frames count: {len(trace.cs_frames)}' in str(trace)
    else:
        assert trace.cs_frames is None and trace.cs_flags is None, trace
        assert 'frames count' not in str(trace)
    return trace


def main():
    rng = random.Random(20)
    cases = 0
    for case in range(24):
        check_vmfault(rng, n_real=[0, 1, 2, 3, 0, 5][case % 6], result=0 if case % 4 else [0, 1, 0, 2, 0, 6][case // 4],
                      case=case)
        cases += 1
    for case in range(16):
        check_launch(rng, n_map=[0, 1, 3, 6][case % 4], n_cache=[0, 1, 2, 0][case // 4], case=case)
        cases += 1
    flag_sets = [0, TH_INFO, USTACK, TH_INFO | USTACK, 0x04, 0x3ff7 & ~TH_INFO & ~USTACK, 0x3fff, TH_INFO | 0x10,
                 USTACK | 0x04]
    case = 0
    for flags in flag_sets:
        for n_thd, n_hdr, n_data in [(0, 0, 0), (1, 1, 2), (0, 1, 3), (1, 0, 2), (2, 1, 0), (3, 2, 4), (1, 1, 1)]:
            check_sampler(rng, flags, n_thd, n_hdr, n_data, case)
            case += 1
            cases += 1
    for flags in (TH_INFO | USTACK, 0x3fff, 0):
        check_sampler(rng, flags, 1, 1, 2, case, paired=False)
        case += 1
        cases += 1

    # The observable difference of the change: the records the sample's thread info says it was decoded from.
    trace = check_sampler(random.Random(1), TH_INFO, 2, 0, 0, 999)
    print(f'{cases + 1} windows checked, all as the statement says')
    print(f'DIFFERENCE: sample with 2 PERF_THD_Data records in its window: len(th_info.ktraces) == '
          f'{len(trace.th_info.ktraces)}  (2 before the change, 1 after; pid/tid/dq_addr/runmode are the same)')
    return 0


if __name__ == '__main__':
    sys.exit(main())
