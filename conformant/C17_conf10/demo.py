"""
Property C17 demo: every registered decoder is reachable; X and X_nocancel decode alike.

Run as:  cd /tmp/seed10_C17 && /venv/bin/python /tmp/seed_out10/C17/demo.py
Exits 0 when the property holds on every exercised input (it does on both the unchanged and the changed code),
exits 1 and lists the violations otherwise.

The oracle is taken from the statement only, it looks at nothing the statement does not talk about: it does not care
what kind of callable a table entry is, where in the table it sits, or how it gets to the base call's logic.
"""
import os, sys; sys.path.insert(0, os.getcwd())  # noqa: E401,E702

import dataclasses
import importlib
import itertools
import struct
from pathlib import Path

import pykdebugparser
from pykdebugparser.kevent import KD_BUF_FORMAT, from_kd_buf
from pykdebugparser.trace_codes import default_trace_codes, from_trace_codes_file
from pykdebugparser.traces_parser import TracesParser

print('testing', pykdebugparser.__file__)

FAMILIES = ('bsd', 'dyld', 'fsystem', 'mach', 'perf', 'trace', 'turnstile')
SUFFIX = '_nocancel'
violations = []
checked = 0


def check(cond, message):
    global checked
    checked += 1
    if not cond:
        violations.append(message)


# ---------------------------------------------------------------------------------------------------------------------
# Clause 1: every registered decoder name occurs in the bundled code table under an id whose qualifier bits are clear.
# Clause 2: no two decoder families claim the same name.
# ---------------------------------------------------------------------------------------------------------------------
codes = default_trace_codes()
bundled = from_trace_codes_file(str(Path(pykdebugparser.__file__).resolve().parent / 'trace.codes'))
check(dict(codes) == dict(bundled), 'default_trace_codes() differs from the bundled trace.codes')

ids_of_name = {}
for code, name in codes.items():
    ids_of_name.setdefault(name, []).append(code)

family_tables = {f: importlib.import_module(f'pykdebugparser.trace_handlers.{f}').handlers for f in FAMILIES}
for family, table in family_tables.items():
    for name, decoder in table.items():
        check(callable(decoder), f'{family}: decoder registered for {name} is not callable')
        check(name in ids_of_name, f'{family}: {name} has a decoder but is not in the code table')
        check(any(code & 0x3 == 0 for code in ids_of_name.get(name, [])),
              f'{family}: {name} is only listed under ids that have qualifier bits set')

for (f1, t1), (f2, t2) in itertools.combinations(family_tables.items(), 2):
    shared = set(t1) & set(t2)
    check(not shared, f'families {f1} and {f2} both claim {sorted(shared)}')

parser_table = TracesParser(codes, {}, {}).handlers
all_names = set().union(*map(set, family_tables.values()))
check(set(parser_table) == all_names, 'the table of the parser is not the union of the families')

# ---------------------------------------------------------------------------------------------------------------------
# Clause 3: whenever X_nocancel is decoded, X is decoded too, by the same logic, and the renderings are identical
# except for the suffix of the call name. Checked through the public entry (TracesParser.feed) on synthetic records.
# ---------------------------------------------------------------------------------------------------------------------
twins = sorted(name for name in parser_table if name.endswith(SUFFIX))
check(len(twins) >= 30, f'only {len(twins)} twins are registered')
for twin in twins:
    check(twin[:-len(SUFFIX)] in parser_table, f'{twin} is decoded but {twin[:-len(SUFFIX)]} is not')

U64 = 0xffffffffffffffff
START_ARGS = [
    (0, 0, 0, 0),
    (3, 0x16f603000, 4096, 0),
    (5, 0x601, 0o644, 7),
    (U64, U64, U64, U64),
    (0xffffffff, 0x7fffffffffffffff, 1, 0x8000000000000000),
    (1, 2, 3, 4),
    (0xfffffffffffffffe, 0x20000, 0x1002, 0x1b6),  # AT_FDCWD-like first argument
    (12, 1 << 40, 0x7fffffff, U64 - 4095),
]
END_ARGS = [
    (0, 0, 0, 0),
    (0, 3, 0, 0),
    (0, U64, 0, 0),
    (2, 0, 0, 0),       # ENOENT
    (4, 0, 0, 0),       # EINTR
    (35, U64, 0, 0),    # EAGAIN
    (106, 0, 0, 0),     # last errno that has a name
    (107, 0, 0, 0),     # errno without a name
    (0xdead, 1, 2, 3),
]
LOOKUP_ID = min(ids_of_name['VFS_LOOKUP'])


def record(timestamp, debugid, values=(0, 0, 0, 0), data=None, tid=0x1234):
    data = struct.pack('<QQQQ', *values) if data is None else data
    return from_kd_buf(struct.pack(KD_BUF_FORMAT, timestamp, data, tid, debugid, 0, 0))


def decode(name, start, end, path):
    """ Feed START, an optional lookup of `path`, END of the syscall `name` to a fresh parser, return the decoded call. """
    parser = TracesParser(codes, {}, {})
    eventid = min(code for code in ids_of_name[name] if code & 0x3 == 0)
    recs = [record(100, eventid | 1, start)]
    if path is not None:
        recs.append(record(101, LOOKUP_ID | 3, data=struct.pack('<Q', 0x55aa) + path.ljust(24, b'\x00')))
    recs.append(record(102, eventid | 2, end))
    out = [parser.feed(r) for r in recs]
    assert out[0] is None  # nothing is decoded before the END record (the lookup record is decoded on its own)
    return out[-1]


def attempt(name, start, end, path):
    try:
        return decode(name, start, end, path), None
    except Exception as e:
        return None, (type(e).__name__, str(e))


def plain_fields(obj):
    return {f.name: getattr(obj, f.name) for f in dataclasses.fields(obj) if f.name not in ('ktraces', 'no_cancel')}


pairs = undecoded = 0
for twin in twins:
    base = twin[:-len(SUFFIX)]
    if base not in parser_table:
        continue
    cases = list(itertools.product(START_ARGS, END_ARGS, (None,))) + [
        (START_ARGS[2], END_ARGS[1], b'/private/etc/hosts'), (START_ARGS[6], END_ARGS[3], b'/nonexistent'),
        (START_ARGS[0], END_ARGS[0], b'a')]
    for start, end, path in cases:
        what = f'{twin} start={start} end={end} path={path}'
        got_twin, err_twin = attempt(twin, start, end, path)
        got_base, err_base = attempt(base, start, end, path)
        if err_twin is not None:
            # The twin is not decoded (e.g. a fcntl command the package has no name for): the statement only speaks
            # about decoded twins; "alike" still asks that the base call fails the same way.
            undecoded += 1
            check(err_twin == err_base, f'{what}: twin fails with {err_twin}, base call with {err_base}')
            continue
        check(err_base is None, f'{what}: twin is decoded, base call fails with {err_base}')
        if err_base is not None:
            continue
        pairs += 1
        check(got_twin is not None, f'{what}: twin is not decoded')
        check(got_base is not None, f'{what}: base call is not decoded')
        if got_twin is None or got_base is None:
            continue
        text_twin, text_base = str(got_twin), str(got_base)
        call = text_base.split('(', 1)[0]
        check(SUFFIX not in call, f'{what}: base call renders as {text_base!r}')
        check(text_twin == call + SUFFIX + text_base[len(call):],
              f'{what}: renderings differ by more than the suffix: {text_twin!r} / {text_base!r}')
        # same logic: same kind of result, same decoded arguments, same records attached
        check(type(got_twin) is type(got_base), f'{what}: {type(got_twin).__name__} / {type(got_base).__name__}')
        check(plain_fields(got_twin) == plain_fields(got_base), f'{what}: decoded fields differ')
        check([r.values for r in got_twin.ktraces] == [r.values for r in got_base.ktraces], f'{what}: records differ')

# ---------------------------------------------------------------------------------------------------------------------
# Not part of the property: what the change makes observable.
# ---------------------------------------------------------------------------------------------------------------------
bsd_names = list(family_tables['bsd'])
entry = family_tables['bsd']['BSC_read_nocancel']
print(f"observable difference: bsd.handlers['BSC_read_nocancel'] is a {type(entry).__name__}, "
      f"__name__={getattr(entry, '__name__', '<none>')!r}, has .func: {hasattr(entry, 'func')}, "
      f"position {bsd_names.index('BSC_read_nocancel')} of {len(bsd_names)} in the table")

print(f'{len(all_names)} decoder names, {len(twins)} twins, {pairs} twin/base decodings compared '
      f'({undecoded} more inputs on which neither is decoded), {checked} checks')
if violations:
    print(f'{len(violations)} VIOLATIONS')
    for v in violations[:20]:
        print('  ', v)
    sys.exit(1)
print('C17 holds')
