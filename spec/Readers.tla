------------------------------- MODULE Readers --------------------------------
(***************************************************************************************************)
(* The container reader at GENERATOR grain (kd_buf_parser.py: KdBufParser.__init__ / parse /        *)
(* parse_v2 / parse_v3 are generator functions).  Container.tla gives the whole-file meaning         *)
(* ParseFile; here a parse is a lazily consumed listing, several may be alive on one reader object   *)
(* or on several reader objects, read in any order, and every piece of state has its HOME:           *)
(*   the table pair   the two dictionaries the reader was CONSTRUCTED with - its own fresh pair when *)
(*                    none were passed - shared exactly by the readers that were given the same pair *)
(*   the reader       the metadata attributes of the LAST block phase run on it                      *)
(*   the generator    position, the pending log records and the dump's string index                  *)
(* Variants (negative controls):                                                                     *)
(*   "sharedDefaults" readers constructed without tables share ONE default pair (mutable default)    *)
(*   "idxOnObject"    the string index kept on the reader object, log records resolved at yield time *)
(* Used for C02, C03.                                                                                *)
(***************************************************************************************************)
EXTENDS Container

CONSTANT RVariant

\* how reader r was constructed: [own |-> TRUE] or [own |-> FALSE, dict |-> n] (the caller's n-th pair of dictionaries)
TabId(r, rd) == IF rd.own THEN (IF RVariant = "sharedDefaults" THEN <<"default", 0>> ELSE <<"own", r>>)
                ELSE <<"dict", rd.dict>>
\* readers that legitimately see each other's table writes
Legit(r1, rd1, r2, rd2) == r1 = r2 \/ (~rd1.own /\ ~rd2.own /\ rd1.dict = rd2.dict)

NoTables == [tpid |-> EmptyFn, pname |-> EmptyFn]
Evs(f) == IF f.ver = 2 THEN f.recs ELSE FlattenChunks(f.chunks, 1)
Acc(f) == ApplyBlocks([meta |-> InitMeta, logs |-> <<>>, idx |-> <<>>], f.blocks, 1)
Whole(f) == ParseFile(InitReader, f)

NewReader(rd) == [own |-> rd.own, dict |-> IF rd.own THEN 0 ELSE rd.dict, meta |-> InitMeta, idx |-> <<>>]
NewGen(r, f) == [r |-> r, f |-> f, k |-> 0, started |-> FALSE, blocks |-> FALSE, done |-> FALSE,
                 clean |-> TRUE, cleanR |-> TRUE, out |-> <<>>]

Tab(tables, id) == IF id \in DOMAIN tables THEN tables[id] ELSE NoTables

\* one next() of generator g:  [reader, tab (the table pair after it), g, found, item]
Adv(rdr, tab0, g) ==
  LET f    == g.f
      evs  == Evs(f)
      n    == Len(evs)
      t1   == IF g.started THEN tab0 ELSE SetThreadMap(f.tmap)          \* first next(): header and thread map (clear, fill)
  IN IF g.k < n THEN
       [reader |-> rdr, tab |-> t1, found |-> TRUE, item |-> Ev(evs[g.k + 1]),
        g |-> [g EXCEPT !.started = TRUE, !.k = @ + 1, !.out = Append(@, Ev(evs[g.k + 1]))]]
     ELSE IF f.ver = 2 THEN
       [reader |-> rdr, tab |-> t1, found |-> FALSE, item |-> [k |-> "none"], g |-> [g EXCEPT !.started = TRUE, !.done = TRUE]]
     ELSE
       LET acc == Acc(f)
           r1  == IF g.blocks THEN rdr ELSE [rdr EXCEPT !.meta = acc.meta, !.idx = acc.idx]    \* block phase: once
           j   == g.k - n + 1
           idx == IF RVariant = "idxOnObject" THEN r1.idx ELSE acc.idx
       IN IF j <= Len(acc.logs) THEN
            LET it == LogItem(idx, acc.logs[j])
                t2 == IF it.proc # "" /\ it.tid # 0
                      THEN [tpid |-> Put(t1.tpid, it.tid, it.pid), pname |-> Put(t1.pname, it.pid, it.proc)] ELSE t1
            IN [reader |-> r1, tab |-> t2, found |-> TRUE, item |-> it,
                g |-> [g EXCEPT !.started = TRUE, !.blocks = TRUE, !.k = @ + 1, !.out = Append(@, it)]]
          ELSE [reader |-> r1, tab |-> t1, found |-> FALSE, item |-> [k |-> "none"],
                g |-> [g EXCEPT !.started = TRUE, !.blocks = TRUE, !.done = TRUE]]

IsPrefixOf(a, b) == Len(a) <= Len(b) /\ \A i \in 1..Len(a) : a[i] = b[i]
=============================================================================
