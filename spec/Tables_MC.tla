------------------------------- MODULE Tables_MC --------------------------------
(* M |= P for C17 on the DESIGN of the lookup path (traces_parser.py: feed / parse_event_list):      *)
(* for every small configuration (decoder tables of two families over a few names, a code table      *)
(* mapping ids to names) the set of decoders that can ever be invoked is                              *)
(*    Reachable = { nm : some id in the table has that name and clear low bits }  \cap registered     *)
(* so the table invariants (name in table under a clean id; families disjoint) are exactly what       *)
(* makes every registered decoder reachable and unambiguous.                                          *)
EXTENDS Naturals, FiniteSets, TLC
Names == {"a", "b", "a_nocancel"}
Ids == {4, 5, 8}                         \* 5 has qualifier bits set
VARIABLES famA, famB, table
vars == <<famA, famB, table>>
Init == famA \in SUBSET Names /\ famB \in SUBSET Names /\ table \in [Ids -> Names \cup {"-"}]
Spec == Init /\ [][UNCHANGED vars]_vars
\* the mechanism: an event carries eventid = debugid with low bits cleared; the decoder is handlers[table[eventid]]
Invocable == {nm \in famA \cup famB : \E i \in Ids : i % 4 = 0 /\ table[i] = nm}
Invariants == /\ \A nm \in famA \cup famB : \E i \in Ids : table[i] = nm /\ i % 4 = 0
              /\ famA \cap famB = {}
AllReachableIffInvariants ==
  Invariants => (Invocable = famA \cup famB /\ famA \cap famB = {})
ConverseReachability ==
  (Invocable = famA \cup famB) => \A nm \in famA \cup famB : \E i \in Ids : table[i] = nm /\ i % 4 = 0
=============================================================================
