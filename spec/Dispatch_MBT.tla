----------------------------- MODULE Dispatch_MBT -----------------------------
(* spec -> code for Dispatch_MC: every behaviour of MaxSteps actions (tables refilled in place,      *)
(* parsers constructed, records fed) is exported with the answer the design gives for every Feed;    *)
(* harness/dispatch.py replays it on real TracesParser objects and real dict objects.               *)
EXTENDS Dispatch_MC, Json

VARIABLE hist
mvars == <<content, tableOf, classMemo, idMemo, modNames, last, fresh, steps, hist>>

TabJson(t) == [i \in Ids |-> t[i]]
MInit == Init /\ hist = <<[act |-> "init", ta |-> TabJson(content["ta"]), tb |-> TabJson(content["tb"])]>>
MNext ==
  /\ steps < MaxSteps /\ steps' = steps + 1
  /\ \/ \E o \in TableObjs, t \in SomeTables :
          RefillA(o, t) /\ hist' = Append(hist, [act |-> "refill", o |-> o, t |-> TabJson(t)])
     \/ \E p \in Parsers, o \in TableObjs :
          ConstructA(p, o) /\ hist' = Append(hist, [act |-> "construct", p |-> p, o |-> o])
     \/ \E p \in Parsers, i \in Ids :
          /\ FeedA(p, i)
          /\ hist' = Append(hist, [act |-> "feed", p |-> p, i |-> i, handler |-> last'.want.handler,
                                   domain |-> last'.want.domain, helpers |-> [j \in Ids |-> j \in last'.want.helpers],
                                   pinned |-> last'.pinned])
MSpec == MInit /\ [][MNext]_mvars
Export == steps = MaxSteps => PrintT(<<"BEH", ToJson(hist)>>)
=============================================================================
