---------------------------- MODULE DarwinTables ------------------------------
(* Frozen constants of Darwin (XNU bsd/sys/errno.h, signal.h, socket.h) used as the oracle of C18.   *)
(* Only entries that are certain are listed; everything else is left out of the oracle.              *)
EXTENDS Naturals, Sequences

Errno == <<"EPERM", "ENOENT", "ESRCH", "EINTR", "EIO", "ENXIO", "E2BIG", "ENOEXEC", "EBADF", "ECHILD",
           "EDEADLK", "ENOMEM", "EACCES", "EFAULT", "ENOTBLK", "EBUSY", "EEXIST", "EXDEV", "ENODEV", "ENOTDIR",
           "EISDIR", "EINVAL", "ENFILE", "EMFILE", "ENOTTY", "ETXTBSY", "EFBIG", "ENOSPC", "ESPIPE", "EROFS",
           "EMLINK", "EPIPE", "EDOM", "ERANGE", "EAGAIN", "EINPROGRESS", "EALREADY", "ENOTSOCK", "EDESTADDRREQ", "EMSGSIZE",
           "EPROTOTYPE", "ENOPROTOOPT", "EPROTONOSUPPORT", "ESOCKTNOSUPPORT", "ENOTSUP", "EPFNOSUPPORT", "EAFNOSUPPORT", "EADDRINUSE", "EADDRNOTAVAIL", "ENETDOWN",
           "ENETUNREACH", "ENETRESET", "ECONNABORTED", "ECONNRESET", "ENOBUFS", "EISCONN", "ENOTCONN", "ESHUTDOWN", "ETOOMANYREFS", "ETIMEDOUT",
           "ECONNREFUSED", "ELOOP", "ENAMETOOLONG", "EHOSTDOWN", "EHOSTUNREACH", "ENOTEMPTY", "EPROCLIM", "EUSERS", "EDQUOT", "ESTALE",
           "EREMOTE", "EBADRPC", "ERPCMISMATCH", "EPROGUNAVAIL", "EPROGMISMATCH", "EPROCUNAVAIL", "ENOLCK", "ENOSYS", "EFTYPE", "EAUTH",
           "ENEEDAUTH", "EPWROFF", "EDEVERR", "EOVERFLOW", "EBADEXEC", "EBADARCH", "ESHLIBVERS", "EBADMACHO", "ECANCELED", "EIDRM",
           "ENOMSG", "EILSEQ", "ENOATTR", "EBADMSG", "EMULTIHOP", "ENODATA", "ENOLINK", "ENOSR", "ENOSTR", "EPROTO",
           "ETIME", "EOPNOTSUPP", "ENOPOLICY", "ENOTRECOVERABLE", "EOWNERDEAD", "EQFULL">>
\* aliases Darwin gives the same number (either spelling is Darwin's)
ErrnoAlias == [n \in 1..106 |-> CASE n = 35 -> {"EAGAIN", "EWOULDBLOCK"} [] OTHER -> {Errno[n]}]

Signal == <<"SIGHUP", "SIGINT", "SIGQUIT", "SIGILL", "SIGTRAP", "SIGABRT", "SIGEMT", "SIGFPE", "SIGKILL", "SIGBUS",
            "SIGSEGV", "SIGSYS", "SIGPIPE", "SIGALRM", "SIGTERM", "SIGURG", "SIGSTOP", "SIGTSTP", "SIGCONT", "SIGCHLD",
            "SIGTTIN", "SIGTTOU", "SIGIO", "SIGXCPU", "SIGXFSZ", "SIGVTALRM", "SIGPROF", "SIGWINCH", "SIGINFO", "SIGUSR1", "SIGUSR2">>
SignalAlias == [n \in 1..31 |-> CASE n = 6 -> {"SIGABRT", "SIGIOT"} [] OTHER -> {Signal[n]}]

AddrFamily == [n \in {0, 1, 2, 11, 12, 16, 17, 18, 23, 27, 28, 30, 31, 32, 33, 34} |->
                 CASE n = 0 -> {"AF_UNSPEC"} [] n = 1 -> {"AF_UNIX", "AF_LOCAL"} [] n = 2 -> {"AF_INET"} [] n = 11 -> {"AF_SNA"}
                   [] n = 12 -> {"AF_DECnet"} [] n = 16 -> {"AF_APPLETALK"} [] n = 17 -> {"AF_ROUTE"} [] n = 18 -> {"AF_LINK"}
                   [] n = 23 -> {"AF_IPX"} [] n = 27 -> {"AF_NDRV"} [] n = 28 -> {"AF_ISDN", "AF_E164"} [] n = 30 -> {"AF_INET6"}
                   [] n = 31 -> {"AF_NATM"} [] n = 32 -> {"AF_SYSTEM"} [] n = 33 -> {"AF_NETBIOS"} [] OTHER -> {"AF_PPP"}]
SockType == <<"SOCK_STREAM", "SOCK_DGRAM", "SOCK_RAW", "SOCK_RDM", "SOCK_SEQPACKET">>
SolSocket == 65535

\* a second platform (Linux) for the negative control: where the two disagree
LinuxErrno(n) == CASE n = 11 -> "EAGAIN" [] n = 35 -> "EDEADLK" [] n = 45 -> "EL2NSYNC" [] OTHER -> Errno[n]
=============================================================================
