------------------------------ MODULE Chunks_MC ------------------------------
(* M |= P for C08 (reassembly): for every text length 0..MaxText and the three header kinds        *)
(* (8 bytes = lookup, 16 = global string, 0 = thread name) the kernel's chunking, fed record by     *)
(* record through Pairing!Step - optionally with unrelated same-thread records in every gap -       *)
(* yields exactly one trace, at the last record, carrying exactly the text (and the header fields);*)
(* no continuation record yields a trace of its own.                                                *)
EXTENDS Pairing

CONSTANTS MaxText, Gaps

\* position coded text: byte i is never 0, consecutive chunks differ
TextOf(n) == [i \in 1..n |-> Mod(i * 7, 250) + 1]
Pad32(bs) == bs \o [i \in 1..(32 - Len(bs)) |-> 0]
HdrOf(kind) == CASE kind = "LKP" -> <<9, 8, 7, 6, 5, 4, 3, 2>>
                 [] kind = "GSTR" -> <<0, 0, 0, 0, 0, 0, 0, 0, 5, 0, 0, 0, 0, 0, 0, 0>>
                 [] OTHER -> <<>>

\* kernel chunking (kdebug_vfs_lookup / kernel_debug_string_internal / kernel_debug_string_simple)
NPieces(n, h) == IF n <= 32 - h THEN 1 ELSE 1 + ((n - (32 - h)) + 31) \div 32
PieceOf(txt, h, j) ==
  IF j = 1 THEN SubSeq(txt, 1, IF Len(txt) < 32 - h THEN Len(txt) ELSE 32 - h)
  ELSE LET a == (32 - h) + 32 * (j - 2) + 1
           b == IF a + 31 > Len(txt) THEN Len(txt) ELSE a + 31
       IN SubSeq(txt, a, b)
Chunks(kind, txt) ==
  LET h == Len(HdrOf(kind))
      np == NPieces(Len(txt), h)
  IN [j \in 1..np |->
        [q |-> (IF j = 1 THEN 1 ELSE 0) + (IF j = np THEN 2 ELSE 0),
         data |-> Pad32((IF j = 1 THEN HdrOf(kind) ELSE <<>>) \o PieceOf(txt, h, j))]]

CodeOf(kind) == CASE kind = "LKP" -> 4 [] kind = "GSTR" -> 7 [] kind = "TNAME" -> 8 [] OTHER -> 9
\* the stream: chunks of the text, with an unrelated same-thread record of the OTHER domain in every gap
Unrelated(k) == [k |-> k, tid |-> 1, code |-> 1, cls |-> "SYS0", q |-> 0, a |-> [x |-> 0]]
UnrelatedFor(kind, k) ==
  IF kind = "LKP" THEN [k |-> k, tid |-> 1, code |-> 9, cls |-> "KNOWN", q |-> 3, a |-> [x |-> 0]]
  ELSE Unrelated(k)
StreamOf(kind, n, gaps) ==
  LET ch == Chunks(kind, TextOf(n))
      m == Len(ch)
      len == IF gaps THEN 2 * m - 1 ELSE m
  IN [i \in 1..len |->
        IF gaps /\ Mod(i, 2) = 0 THEN UnrelatedFor(kind, i)
        ELSE LET j == IF gaps THEN (i + 1) \div 2 ELSE i IN
             [k |-> i, tid |-> 1, code |-> CodeOf(kind), cls |-> kind, q |-> ch[j].q,
              a |-> IF kind = "GSTR" /\ j = 1 THEN [data |-> ch[j].data, sid |-> 5] ELSE [data |-> ch[j].data]]]

VARIABLES vkind, vn, vgaps
vars == <<vkind, vn, vgaps>>
Init == vkind \in {"LKP", "GSTR", "TNAME", "TNAMEP"} /\ vn \in 0..MaxText /\ vgaps \in Gaps
Spec == Init /\ [][UNCHANGED vars]_vars

\* outs of running the stream from the initial state
RECURSIVE Outs(_, _, _)
Outs(s, evs, i) == IF i > Len(evs) THEN <<>>
                   ELSE LET r == Step(s, evs[i]) IN <<r>> \o Outs(r.s, evs, i + 1)

ChunkIdx(evs) == {i \in 1..Len(evs) : evs[i].cls = vkind}

ReassembleExact ==
  LET kind == vkind
      n == vn
      evs == StreamOf(vkind, vn, vgaps)
      outs == Outs(InitState, evs, 1)
      last == Len(evs)
      txt == TextOf(n)
      emitted == {i \in ChunkIdx(evs) : outs[i].out.emit}
  IN /\ emitted = {last}                                  \* exactly one trace, at the last record
     /\ LET f == outs[last].out.f IN
        CASE kind = "LKP" -> f.path = txt /\ f.vid = HdrOf("LKP")
          [] kind = "GSTR" -> f.text = txt /\ f.sid = 5
          [] OTHER -> f.name = txt
     /\ \A i \in ChunkIdx(evs) \ {last} : outs[i].eff = <<>>       \* fragments assign nothing
     /\ outs[last].out.win = SelectSeq([i \in 1..Len(evs) |-> i], LAMBDA i : Dom(evs[i].cls) = Dom(kind))
     /\ kind = "GSTR" /\ n > 0 => outs[last].s.gstr = (5 :> txt)
     /\ kind \in {"TNAME", "TNAMEP"} => outs[last].s.tname = (1 :> txt)
=============================================================================
