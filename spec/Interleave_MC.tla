---------------------------- MODULE Interleave_MC ----------------------------
(* M |= P for C05: every pair (triple) of per-thread programs over a template alphabet, EVERY      *)
(* interleaving (Next schedules any thread).  Invariant: what each thread got so far - emitted      *)
(* traces with their windows and thread-local fields, and the table assignments its events caused - *)
(* equals the result of running that thread's prefix alone (Solo), i.e. is independent of the       *)
(* schedule.  Cross-thread reads (thread-terminate pid/name, dyld string lookups) are masked, as    *)
(* the property statement carves them out.                                                          *)
EXTENDS Pairing

CONSTANTS Threads, MaxProg, Alphabet

Data(bs) == bs \o [i \in 1..(32 - Len(bs)) |-> 0]

\* template -> event of thread t at local position j   (k encodes (t, j) so windows are schedule independent)
Mk(tpl, t, j) ==
  LET k == 8 * j + t
      E(code, cls, q, a) == [k |-> k, tid |-> t, code |-> code, cls |-> cls, q |-> q, a |-> a]
  IN CASE tpl = "NTD" -> E(1, "NTD", 0, [ntid |-> 10 + t, pid |-> 100 + t])
       [] tpl = "NTDo" -> E(1, "NTD", 0, [ntid |-> IF t = 1 THEN 2 ELSE 1, pid |-> 110 + t])   \* names the other, live thread
       [] tpl = "NTS" -> E(2, "NTS", 3, [name |-> IF t = 1 THEN "one" ELSE IF t = 2 THEN "two" ELSE "three"])
       [] tpl = "EXD" -> E(3, "EXD", 0, [pid |-> 200 + t])
       [] tpl = "EXS" -> E(4, "EXS", 3, [name |-> IF t = 1 THEN "x1" ELSE IF t = 2 THEN "x2" ELSE "x3"])
       [] tpl = "S0" -> E(5, "SYS0", 1, [x |-> 0])
       [] tpl = "E0" -> E(5, "SYS0", 2, [x |-> 0])
       [] tpl = "S1" -> E(6, "SYS1", 1, [x |-> 0])
       [] tpl = "E1" -> E(6, "SYS1", 2, [x |-> 0])
       [] tpl = "LK" -> E(7, "LKP", 3, [data |-> Data(<<t, t, t, t, t, t, t, t, 47, 96 + t>>)])
       [] tpl = "TN" -> E(8, "TNAME", 3, [data |-> Data(<<84, 48 + t>>)])
       [] tpl = "TERM" -> E(9, "TERM", 0, [ttid |-> IF t = 1 THEN 2 ELSE 1])
       [] tpl = "TPID" -> E(10, "TPID", 0, [pid |-> 300 + t])
       [] tpl = "THD" -> E(11, "THD", 0, [pid |-> 400 + t, ttid |-> t])
       [] tpl = "KN" -> E(12, "KNOWN", 0, [x |-> 0])          \* a named code without decoder (e.g. lost events): inert

RECURSIVE SeqsUpTo(_, _)
SeqsUpTo(S, n) == IF n = 0 THEN {<<>>}
                  ELSE LET P == SeqsUpTo(S, n - 1) IN P \cup {Append(p, x) : p \in {q \in P : Len(q) = n - 1}, x \in S}
Progs == SeqsUpTo(Alphabet, MaxProg)

\* what a thread observes of one step (cross-thread reads masked)
Mask(r) ==
  LET o == r.out IN
  [ emit |-> o.emit,
    win  |-> IF o.emit THEN o.win ELSE <<>>,
    f    |-> IF ~o.emit THEN [c |-> "-"]
             ELSE IF o.cls = "TERM" THEN [c |-> "TERM", ttid |-> o.f.ttid]
             ELSE IF o.cls = "USESTR" THEN [c |-> "USESTR"]
             ELSE o.f,
    eff  |-> r.eff ]

VARIABLES prog, pc, s, log
vars == <<prog, pc, s, log>>

Init == /\ prog \in [Threads -> Progs]
        /\ pc = [t \in Threads |-> 0]
        /\ s = InitState
        /\ log = [t \in Threads |-> <<>>]

Next == \E t \in Threads :
          /\ pc[t] < Len(prog[t])
          /\ LET e == Mk(prog[t][pc[t] + 1], t, pc[t] + 1)
                 r == Step(s, e)
             IN /\ s' = r.s
                /\ log' = [log EXCEPT ![t] = Append(@, Mask(r))]
          /\ pc' = [pc EXCEPT ![t] = @ + 1]
          /\ prog' = prog
Spec == Init /\ [][Next]_vars

RECURSIVE SoloLog(_, _, _, _, _)
SoloLog(p, t, j, upto, st) ==
  IF j > upto THEN <<>>
  ELSE LET r == Step(st, Mk(p[j], t, j)) IN <<Mask(r)>> \o SoloLog(p, t, j + 1, upto, r.s)

InterleavingInvariance ==
  \A t \in Threads : log[t] = SoloLog(prog[t], t, 1, pc[t], InitState)
=============================================================================
