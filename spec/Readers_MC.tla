------------------------------ MODULE Readers_MC ------------------------------
(* M |= P for the reader at generator grain: every schedule of opening parses and single next()     *)
(* calls over at most MaxGens listings of three small files (a version-2 file, two version-3 files   *)
(* with different string indexes and a log record that extends the tables) on four reader objects    *)
(* (two constructed without tables, two sharing the caller's pair).                                  *)
(*  YieldsAreFile   what every listing yields is a prefix of the file's own items (all, at the end)  *)
(*  TablesAfter     a parse during which no reader sharing its tables did anything leaves exactly    *)
(*                  the file's tables in ITS pair                                                    *)
(*  MetaAfter       ... and the file's metadata on its reader                                        *)
EXTENDS Readers

CONSTANTS MaxGens, MaxSteps

F1 == [ver |-> 2, tmap |-> <<[tid |-> 1, pid |-> 1, name |-> "a"]>>, recs |-> <<1, 2>>]
F2 == [ver |-> 3, tmap |-> <<[tid |-> 2, pid |-> 2, name |-> "b"]>>, chunks |-> << <<1>> >>,
       blocks |-> <<[tag |-> "strings", idx |-> <<"m", "p">>], [tag |-> "codes", txt |-> "x"],
                    [tag |-> "logs", evs |-> <<[cm |-> 0, p |-> 1, tid |-> 3, pid |-> 3], [cm |-> 0, p |-> -1, tid |-> 0, pid |-> 0]>>]>>]
F3 == [ver |-> 3, tmap |-> <<>>, chunks |-> << <<>> >>,
       blocks |-> <<[tag |-> "logs", evs |-> <<[cm |-> 1, p |-> 0, tid |-> 4, pid |-> 4], [cm |-> 1, p |-> 0, tid |-> 4, pid |-> 5]>>],
                    [tag |-> "strings", idx |-> <<"q", "m2">>], [tag |-> "procs", val |-> 7]>>]
Files == <<F1, F2, F3>>
ReaderSpecs == <<[own |-> TRUE], [own |-> TRUE], [own |-> FALSE, dict |-> 1], [own |-> FALSE, dict |-> 1]>>

VARIABLES readers, tables, gens, steps
vars == <<readers, tables, gens, steps>>

Init == /\ readers = [r \in 1..Len(ReaderSpecs) |-> NewReader(ReaderSpecs[r])]
        /\ tables = [id \in {TabId(r, ReaderSpecs[r]) : r \in 1..Len(ReaderSpecs)} |-> NoTables]
        /\ gens = <<>> /\ steps = 0

Open == /\ Len(gens) < MaxGens
        /\ \E r \in 1..Len(ReaderSpecs), fi \in 1..Len(Files) : gens' = Append(gens, NewGen(r, Files[fi]))
        /\ UNCHANGED <<readers, tables>>
Advance == \E i \in 1..Len(gens) :
   /\ ~gens[i].done
   /\ LET g == gens[i]
          id == TabId(g.r, ReaderSpecs[g.r])
          a == Adv(readers[g.r], tables[id], g)
      IN /\ readers' = [readers EXCEPT ![g.r] = a.reader]
         /\ tables' = [tables EXCEPT ![id] = a.tab]
         /\ gens' = [j \in 1..Len(gens) |->
                      IF j = i THEN a.g
                      ELSE [gens[j] EXCEPT !.clean = @ /\ ~Legit(g.r, ReaderSpecs[g.r], gens[j].r, ReaderSpecs[gens[j].r]),
                                           !.cleanR = @ /\ gens[j].r # g.r]]
Next == steps < MaxSteps /\ steps' = steps + 1 /\ (Open \/ Advance)
Spec == Init /\ [][Next]_vars

YieldsAreFile == \A i \in 1..Len(gens) :
   LET w == Whole(gens[i].f).yields IN IsPrefixOf(gens[i].out, w) /\ (gens[i].done => Len(gens[i].out) = Len(w))
TablesAfter == \A i \in 1..Len(gens) : (gens[i].done /\ gens[i].clean) =>
   LET st == Whole(gens[i].f).st
       t == tables[TabId(gens[i].r, ReaderSpecs[gens[i].r])]
   IN t.tpid = st.tpid /\ t.pname = st.pname
MetaAfter == \A i \in 1..Len(gens) : (gens[i].done /\ gens[i].cleanR /\ gens[i].f.ver = 3) =>
   readers[gens[i].r].meta = Whole(gens[i].f).st.meta
=============================================================================
