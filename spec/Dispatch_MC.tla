----------------------------- MODULE Dispatch_MC ------------------------------
(***************************************************************************************************)
(* Which decoder serves a record, and in which pairing domain, is a function of the record's id and  *)
(* of the code table of THE PARSER OBJECT THAT IS FED - traces_parser.py: feed (domain by the name    *)
(* the object's table gives the id) and parse_event_list (handler by that name).  Several parser     *)
(* objects live in one process, each constructed with its own table object; a caller may refill a    *)
(* table object in place and construct another parser with it.  Every piece of resolution state has  *)
(* a HOME: none at all in the design (resolved per record from self.trace_codes).  The variants keep *)
(* a memo in the wrong home - the realistic slips:                                                   *)
(*   "memoOnClass"     id -> (handler, domain) remembered on the class: shared by all objects        *)
(*   "memoByTableId"   set of trace-domain ids remembered per IDENTITY of the table object           *)
(*   "lazyModuleNames" name -> ids of helper records resolved once per process from whichever table  *)
(*                     needed it first                                                               *)
(* Property OwnTable: what an object answers for a record equals Resolve(contents of ITS table) -    *)
(* pinned as long as the table object has not been refilled since the parser was constructed with   *)
(* it (whether an object reads its table at construction or at every record is not pinned: a        *)
(* request constructs its parser, so a refilled table is honoured by the NEXT parser either way).   *)
(* This is the specification behind the harness's decoys (harness/decoy.py): activity of other       *)
(* objects under other tables must not change any answer.   Used for C04, C07, C10, C17, C19, C20.   *)
(***************************************************************************************************)
EXTENDS Naturals, Sequences, FiniteSets, TLC

CONSTANTS Variant, MaxSteps

Ids == {1, 2, 3}
\* names: "r" / "g" decoded ordinary records, "s" a decoded trace-domain record, "h" a helper record (picked out of a
\* window by the decoder "r"), "u" a name without decoder, "-" = id not in the table
Names == {"r", "g", "s", "h", "u", "-"}
Decoded == {"r", "g", "s", "h"}
Tables == [Ids -> Names]
T1 == [i \in Ids |-> IF i = 1 THEN "r" ELSE IF i = 2 THEN "s" ELSE "h"]         \* "the bundled table"
T2 == [i \in Ids |-> IF i = 1 THEN "g" ELSE IF i = 2 THEN "u" ELSE "-"]         \* another release / a trimmed table
T3 == [i \in Ids |-> IF i = 1 THEN "s" ELSE IF i = 2 THEN "h" ELSE "r"]         \* names rotated among the ids
T4 == [i \in Ids |-> IF i = 3 THEN "r" ELSE "h"]                                \* the helper name under TWO ids
SomeTables == {T1, T2, T3, T4}

\* what the properties demand for a record with id i under table t
Resolve(t, i) == [handler |-> IF t[i] \in Decoded THEN t[i] ELSE "none",
                  domain  |-> IF t[i] = "s" THEN "trc" ELSE "ord",
                  helpers |-> {j \in Ids : t[j] = "h"}]                        \* the ids decoder "r" treats as its helper records

TableObjs == {"ta", "tb"}        \* identities of table objects (dicts) the caller owns
Parsers == {"p1", "p2"}

VARIABLES content,     \* table object -> its contents now
          tableOf,     \* parser object -> the table object it was constructed with ("none" = not constructed)
          classMemo,   \* id -> remembered answer (variant memoOnClass)
          idMemo,      \* table object identity -> remembered set of trace-domain ids (variant memoByTableId)
          modNames,    \* remembered helper ids or "unset" (variant lazyModuleNames)
          last,        \* the last answer given: [p, i, ans]
          fresh,       \* parser object -> its table object has not been refilled since it was constructed
          steps
vars == <<content, tableOf, classMemo, idMemo, modNames, last, fresh, steps>>

None == [handler |-> "none", domain |-> "ord", helpers |-> {}]
Init == /\ content \in [TableObjs -> SomeTables]
        /\ tableOf = [p \in Parsers |-> "none"]
        /\ classMemo = [i \in Ids |-> [set |-> FALSE, v |-> None]] /\ idMemo = [o \in TableObjs |-> [set |-> FALSE, v |-> {}]]
        /\ modNames = [set |-> FALSE, v |-> {}]
        /\ last = [p |-> "none", i |-> 1, ans |-> None, want |-> None, pinned |-> TRUE] /\ steps = 0
        /\ fresh = [p \in Parsers |-> TRUE]

\* the caller refills a table object in place (same identity, other contents)
RefillA(o, t) ==
            /\ content' = [content EXCEPT ![o] = t]
            /\ fresh' = [p \in Parsers |-> IF tableOf[p] = o /\ t # content[o] THEN FALSE ELSE fresh[p]]
            /\ UNCHANGED <<tableOf, classMemo, idMemo, modNames, last>>
Refill == \E o \in TableObjs, t \in SomeTables : RefillA(o, t)

\* TracesParser(table, ...) : __init__
ConstructA(p, o) ==
   /\ tableOf' = [tableOf EXCEPT ![p] = o]
   /\ fresh' = [fresh EXCEPT ![p] = TRUE]
   /\ idMemo' = IF Variant = "memoByTableId" /\ ~idMemo[o].set
                THEN [idMemo EXCEPT ![o] = [set |-> TRUE, v |-> {i \in Ids : content[o][i] = "s"}]] ELSE idMemo
   /\ UNCHANGED <<content, classMemo, modNames, last>>
Construct == \E p \in Parsers, o \in TableObjs : ConstructA(p, o)

\* feed(record with id i) on parser p
FeedA(p, i) ==
   /\ tableOf[p] # "none"
   /\ LET t == content[tableOf[p]]
          own == Resolve(t, i)
          viaClass == IF classMemo[i].set THEN classMemo[i].v ELSE own
          ans == [handler |-> IF Variant = "memoOnClass" THEN viaClass.handler ELSE own.handler,
                  domain  |-> IF Variant = "memoOnClass" THEN viaClass.domain
                              ELSE IF Variant = "memoByTableId" THEN (IF i \in idMemo[tableOf[p]].v THEN "trc" ELSE "ord")
                              ELSE own.domain,
                  helpers |-> IF Variant = "lazyModuleNames" /\ modNames.set THEN modNames.v ELSE own.helpers]
      IN /\ last' = [p |-> p, i |-> i, ans |-> ans, want |-> own, pinned |-> fresh[p]]
         /\ classMemo' = IF Variant = "memoOnClass" /\ ~classMemo[i].set THEN [classMemo EXCEPT ![i] = [set |-> TRUE, v |-> own]] ELSE classMemo
         /\ modNames' = IF Variant = "lazyModuleNames" /\ ~modNames.set /\ own.handler = "r" THEN [set |-> TRUE, v |-> own.helpers] ELSE modNames
   /\ UNCHANGED <<content, tableOf, idMemo, fresh>>
Feed == \E p \in Parsers, i \in Ids : FeedA(p, i)

Next == steps < MaxSteps /\ steps' = steps + 1 /\ (Refill \/ Construct \/ Feed)
Spec == Init /\ [][Next]_vars

\* every answer is the one the object's OWN table gave at that moment
OwnTable == (last.p # "none" /\ last.pinned) => last.ans = last.want
=============================================================================
