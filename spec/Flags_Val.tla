------------------------------ MODULE Flags_Val --------------------------------
(* code -> spec for C11: what the real helpers / renderings show for a word.                         *)
(*  flags: [id, fam, bits (set positions), shown (names), via]      ioctl: [id, d, len, group, num, sh] *)
EXTENDS Flags, Json, IOUtils
Obs == JsonDeserialize(IOEnv.OBS_FILE)
SetOf(sq) == {sq[i] : i \in 1..Len(sq)}
Verdict(o) ==
  IF "err" \in DOMAIN o THEN "raised"
  ELSE IF o.kind = "flags" THEN
       (IF \E n \in SetOf(o.shown) : n \notin ({p[1] : p \in Fam(o.fam).single} \cup FieldNames(o.fam) \cup Fam(o.fam).zero
                                                \cup {"O_ACCMODE"} \cup {p[1] : p \in Extra(o.fam)})
        THEN "name-not-darwin"
        ELSE FlagVerdict(o.fam, SetOf(o.bits), SetOf(o.shown)))
  ELSE IocVerdict(o.d, o.len, o.group, o.num, o.sh)
ASSUME PrintT(<<"VAL", Len(Obs)>>)
ASSUME \A i \in 1..Len(Obs) : LET v == Verdict(Obs[i]) IN v = "ok" \/ PrintT(<<"REJ", Obs[i].id, v>>)
VARIABLE dummy
Spec == dummy = 0 /\ [][UNCHANGED dummy]_dummy
=============================================================================
