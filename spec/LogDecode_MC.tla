----------------------------- MODULE LogDecode_MC -------------------------------
(* M |= P for C16 (trace identifier half): Unpack is the exact inverse of Pack for EVERY defined     *)
(* namespace x defined type x every subset of the defined flag bits x pc_style 0..7 x the three      *)
(* booleans x two codes; and the key table is a bijection between the 41 keys and the fields.        *)
EXTENDS LogDecode
RECURSIVE Sum(_)
Sum(S) == IF S = {} THEN 0 ELSE LET x == CHOOSE y \in S : TRUE IN x + Sum(S \ {x})
VARIABLES x
Init == \E ns \in Namespaces, ty \in 0..255, fl \in SUBSET {1, 2, 4, 8, 16, 128}, pcs \in 0..7, a \in BOOLEAN, u \in BOOLEAN, l \in BOOLEAN,
           c \in {<<0, 0, 0, 0>>, <<239, 190, 173, 222>>} :
           /\ ty \in TypesOf(ns) /\ fl \subseteq FlagBitsOf(ns)
           /\ x = [ns |-> ns, type |-> ty, aid |-> a, pcs |-> pcs, up |-> u, lo |-> l,
                   flags |-> IF HasFlags(ns) THEN Sum(fl) ELSE -1, code |-> c]
Spec == Init /\ [][UNCHANGED x]_x
PackFlags(y) == [y EXCEPT !.flags = IF y.flags = -1 THEN 0 ELSE y.flags]
RoundTrip == Unpack(Pack(PackFlags(x))) = x
BytesInRange == \A i \in 1..8 : Pack(PackFlags(x))[i] \in 0..255
KeyTableBijective ==
  /\ Cardinality({Mandatory[i][1] : i \in 1..Len(Mandatory)} \cup OptKeys) = 41
  /\ Cardinality({Mandatory[i][2] : i \in 1..Len(Mandatory)} \cup {Optional[i][2] : i \in 1..Len(Optional)}) = 41
  /\ Len(Optional) = 31
=============================================================================
