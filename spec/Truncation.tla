----------------------------- MODULE Truncation ------------------------------
(***************************************************************************************************)
(* The container reader at BYTE grain on a possibly truncated stream (C06): a program counter over  *)
(* the read calls of KdBufParser.parse_v2 / parse_v3, with                                          *)
(*   - Read(n): a fixed-size read returns min(n, remaining) symbols - a short read never yields;    *)
(*   - seek_until as an explicit LOOP, one byte per step (kd_buf_parser.py:88-97), with the exit    *)
(*     "end of stream => stop with an error" when SeekHasEofExit (the repaired design); without it  *)
(*     (the pinned tree) the loop spins forever on `found[1:] + b''`;                              *)
(*   - the greedy zero-padding skipper of the v2 header, the MORE_EVENTS check and its seek(-8).    *)
(* Sizes are scaled (tags and records are 2 symbols) so that TLC can enumerate EVERY layout of a    *)
(* small family x EVERY cut offset.  Real sizes are handled by Truncation_Val on recorded runs.     *)
(***************************************************************************************************)
EXTENDS Naturals, Sequences, FiniteSets, TLC

CONSTANTS SeekHasEofExit,      \* TRUE: repaired design; FALSE: pinned tree (negative control)
          Family               \* "v3" or "v2": which layout family Init enumerates

\* ---- symbols -------------------------------------------------------------------------------------
ST == <<1, 2>>   TM == <<3, 4>>   EV == <<5, 6>>   MO == <<7, 8>>
Junk == 9   V3 == 10   Hdr == 11   TMap == 13   V2 == 14   Zero == 0   Blk == 30
Cnt(n) == 20 + n
Rec(i) == <<100 + 2 * i, 101 + 2 * i>>

RECURSIVE Recs(_, _)
Recs(first, n) == IF n = 0 THEN <<>> ELSE Rec(first) \o Recs(first + 1, n - 1)

RECURSIVE ChunksOf(_, _, _, _)
ChunksOf(cs, i, first, mfill) ==       \* cs: Seq of record counts per chunk
  IF i > Len(cs) THEN <<>>
  ELSE (IF i > 1 THEN MO \o mfill ELSE <<>>) \o EV \o <<Cnt(cs[i])>> \o Recs(first, cs[i])
       \o ChunksOf(cs, i + 1, first + cs[i], mfill)

RECURSIVE Rep(_, _)
Rep(x, n) == IF n = 0 THEN <<>> ELSE <<x>> \o Rep(x, n - 1)

FileV3(f1, f2, f3, mf, cs, nb) ==
  <<V3, Hdr>> \o f1 \o ST \o f2 \o TM \o <<TMap>> \o f3 \o ChunksOf(cs, 1, 1, mf) \o Rep(Blk, nb)
FileV2(pad, n) == <<V2, Hdr>> \o Rep(Zero, pad) \o Recs(1, n)

\* all complete records of a full file, in order (what the complete dump reports)
FullYields(file) ==
  LET idx == SelectSeq([i \in 1..Len(file) |-> i],
                       LAMBDA i : file[i] >= 100 /\ file[i] % 2 = 0 /\ i < Len(file) /\ file[i + 1] = file[i] + 1)
  IN [j \in 1..Len(idx) |-> <<file[idx[j]], file[idx[j] + 1]>>]

Fill1 == {<<>>, <<Junk>>, <<1>>, <<3, 4>>, <<1, 1>>}      \* junk, tag prefix, decoy thread-map tag, repeated prefix
Fill2 == {<<>>, <<Junk>>, <<3>>, <<3, 3>>}
Fill3 == {<<>>, <<5>>, <<Junk, 5>>}
ChunkCounts == {<<0>>, <<1>>, <<2>>, <<1, 1>>, <<0, 2>>, <<2, 1>>}

VARIABLES full, cut,            \* the complete file and the truncation offset
          pos, pc, found, left, \* reader: offset, program counter, seek window, records left in the chunk
          yielded, status       \* reported records; "run" | "done" | "fail"
vars == <<full, cut, pos, pc, found, left, yielded, status>>

Stream == SubSeq(full, 1, cut)
Remaining == Len(Stream) - pos
Take(n) == SubSeq(Stream, pos + 1, pos + (IF n < Remaining THEN n ELSE Remaining))
AtEof == Remaining = 0

Init ==
  /\ \/ /\ Family = "v3"
        /\ \E f1 \in Fill1, f2 \in Fill2, f3 \in Fill3, mf \in {<<>>, <<Junk>>}, cs \in ChunkCounts, nb \in {0, 1} :
              full = FileV3(f1, f2, f3, mf, cs, nb)
     \/ /\ Family = "v2"
        /\ \E pad \in 0..2, n \in 0..3 : full = FileV2(pad, n)
  /\ cut \in 0..Len(full)
  /\ pos = 0 /\ pc = "ver" /\ found = <<>> /\ left = 0 /\ yielded = <<>> /\ status = "run"

Fail == status' = "fail" /\ pc' = "fail"
Stop == status' = "done" /\ pc' = "done"
Keep(vs) == UNCHANGED vs

\* read exactly n symbols or fail (struct / construct raise on a short read)
ReadExact(n, okpc) ==
  IF Remaining >= n THEN /\ pos' = pos + n /\ pc' = okpc /\ status' = status
  ELSE /\ pos' = Len(Stream) /\ Fail

RdVer ==
  /\ pc = "ver"
  /\ IF Remaining >= 1 /\ Take(1) = <<V3>> THEN pos' = pos + 1 /\ pc' = "hdr3" /\ status' = status
     ELSE IF Remaining >= 1 /\ Take(1) = <<V2>> THEN pos' = pos + 1 /\ pc' = "hdr2" /\ status' = status
     ELSE pos' = pos /\ Fail                                       \* KeyError: unknown / short version
  /\ Keep(<<full, cut, found, left, yielded>>)

RdHdr ==
  /\ pc \in {"hdr3", "hdr2"}
  /\ ReadExact(1, IF pc = "hdr3" THEN "seekST0" ELSE "pad")
  /\ Keep(<<full, cut, found, left, yielded>>)

\* ---- seek_until(tag): found = read(len(tag)); while found != tag: found = found[1:] + read(1) -----
SeekBegin(from, to) ==
  /\ pc = from
  /\ found' = Take(2) /\ pos' = pos + Len(Take(2)) /\ pc' = to
  /\ Keep(<<full, cut, left, yielded, status>>)
SeekLoop(at, tag, next) ==
  /\ pc = at
  /\ IF found = tag THEN /\ pc' = next /\ found' = <<>> /\ pos' = pos /\ status' = status
     ELSE IF AtEof /\ SeekHasEofExit THEN /\ found' = found /\ pos' = pos /\ Fail      \* the repaired exit
     ELSE /\ found' = (IF found = <<>> THEN <<>> ELSE Tail(found)) \o Take(1)              \* found[1:] + reader.read(1)  (b'' at end of stream)
          /\ pos' = pos + Len(Take(1)) /\ pc' = pc /\ status' = status
  /\ Keep(<<full, cut, left, yielded>>)

RdTMap == /\ pc = "tmap" /\ ReadExact(1, "seekEV0") /\ Keep(<<full, cut, found, left, yielded>>)

RdCnt ==
  /\ pc = "cnt"
  /\ IF Remaining >= 1 THEN /\ pos' = pos + 1 /\ left' = Take(1)[1] - 20 /\ pc' = "rec" /\ status' = status
     ELSE /\ pos' = pos /\ left' = left /\ Fail
  /\ Keep(<<full, cut, found, yielded>>)

RdRec ==
  /\ pc = "rec"
  /\ IF left = 0 THEN /\ pc' = "more" /\ Keep(<<pos, left, yielded, status>>)
     ELSE IF Remaining >= 2 THEN /\ yielded' = Append(yielded, Take(2)) /\ pos' = pos + 2 /\ left' = left - 1
                                 /\ Keep(<<pc, status>>)
     ELSE /\ pos' = Len(Stream) /\ Keep(<<left, yielded>>) /\ Fail        \* partial record: nothing is fabricated
  /\ Keep(<<full, cut, found>>)

RdMore ==      \* if reader.read(8) != MORE_EVENTS: break ... reader.seek(-8, 1)
  /\ pc = "more"
  /\ IF Take(2) = MO THEN /\ pos' = pos + 2 /\ pc' = "seekEV0"
     ELSE /\ pos' = (pos + Len(Take(2))) - 2 /\ pc' = "blocks"
  /\ Keep(<<full, cut, found, left, yielded, status>>)

RdBlocks ==    \* additional data: no events are reported from here on (logs are out of the prefix claim)
  /\ pc = "blocks"
  /\ IF Remaining >= 1 /\ Take(1) = <<Blk>> THEN pos' = pos + 1 /\ Keep(<<pc, status>>)
     ELSE pos' = pos /\ Stop
  /\ Keep(<<full, cut, found, left, yielded>>)

\* ---- version 2: greedy zero padding, then records until end of stream ----------------------------
RdPad ==
  /\ pc = "pad"
  /\ IF Remaining >= 1 /\ Take(1) = <<Zero>> THEN pos' = pos + 1 /\ pc' = pc ELSE pos' = pos /\ pc' = "rec2"
  /\ Keep(<<full, cut, found, left, yielded, status>>)
RdRec2 ==
  /\ pc = "rec2"
  /\ IF AtEof THEN Stop /\ Keep(<<pos, yielded>>)
     ELSE IF Remaining >= 2 THEN yielded' = Append(yielded, Take(2)) /\ pos' = pos + 2 /\ Keep(<<pc, status>>)
     ELSE pos' = Len(Stream) /\ Keep(<<yielded>>) /\ Fail
  /\ Keep(<<full, cut, found, left>>)

Next ==
  \/ RdVer \/ RdHdr
  \/ SeekBegin("seekST0", "seekST") \/ SeekLoop("seekST", ST, "seekTM0")
  \/ SeekBegin("seekTM0", "seekTM") \/ SeekLoop("seekTM", TM, "tmap")
  \/ RdTMap
  \/ SeekBegin("seekEV0", "seekEV") \/ SeekLoop("seekEV", EV, "cnt")
  \/ RdCnt \/ RdRec \/ RdMore \/ RdBlocks
  \/ RdPad \/ RdRec2

Spec == Init /\ [][Next]_vars /\ WF_vars(Next)

\* ---- properties -----------------------------------------------------------------------------------
IsPrefix(a, b) == Len(a) <= Len(b) /\ \A i \in 1..Len(a) : a[i] = b[i]

\* what was reported is a prefix of what the complete dump reports; nothing already reported is withdrawn
PrefixOfFull == IsPrefix(yielded, FullYields(full))
Monotone == [][IsPrefix(yielded, yielded')]_vars
\* nothing is fabricated from a partial record: every reported record lies completely inside the cut
NothingFromPartial == Len(yielded) <= Cardinality({i \in 1..cut : i > 1 /\ full[i - 1] >= 100 /\ full[i - 1] % 2 = 0})
\* termination: parsing of every truncation of every layout stops
Terminates == <>(status # "run")
\* the reader never runs past the end
InBounds == pos >= 0 /\ pos <= Len(Stream)
\* a complete file is read completely and reports everything
CompleteFileComplete == (cut = Len(full) /\ status # "run") => (status = "done" /\ yielded = FullYields(full))

=============================================================================
