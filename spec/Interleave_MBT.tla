--------------------------- MODULE Interleave_MBT ----------------------------
(* spec -> code for C05: export every complete schedule (programs, order of threads, per-thread    *)
(* masked logs) explored by TLC; the harness replays each schedule on the real TracesParser.        *)
EXTENDS Interleave_MC, Json

VARIABLE sched
mvars == <<prog, pc, s, log, sched>>
MInit == Init /\ sched = <<>>
MNext == \E t \in Threads :
          /\ pc[t] < Len(prog[t])
          /\ LET e == Mk(prog[t][pc[t] + 1], t, pc[t] + 1)
                 r == Step(s, e)
             IN /\ s' = r.s
                /\ log' = [log EXCEPT ![t] = Append(@, Mask(r))]
          /\ pc' = [pc EXCEPT ![t] = @ + 1]
          /\ prog' = prog
          /\ sched' = Append(sched, t)
MSpec == MInit /\ [][MNext]_mvars

Done == \A t \in Threads : pc[t] = Len(prog[t])
Export == (Done /\ Len(sched) > 0) =>
            PrintT(<<"BEH", ToJson([prog |-> prog, sched |-> sched, log |-> log])>>)
=============================================================================
