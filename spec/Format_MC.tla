------------------------------ MODULE Format_MC -------------------------------
(* M |= P for C14.                                                                                  *)
(* (a) process column: for every dump (<= MaxEvs templates of map-updating records on 2 threads,    *)
(*     with / without a thread-map entry) the process the mechanism shows for each emitted trace    *)
(*     (tables as of emission, Pipeline!Decode) is the process the dump DECLARES for the emitting   *)
(*     thread at that point - stated on the history alone: the latest of {thread-map entry,         *)
(*     new-thread record naming the thread (written by any thread), terminate-pid record of the     *)
(*     thread, sampler thread-info naming the thread (alone or re-applied when its sampler window   *)
(*     closes)} - and a never-declared thread is unknown.                                           *)
(* (b) columns: a line is the concatenation of the enabled columns in a fixed order; switching one  *)
(*     column off removes exactly that column.                                                      *)
EXTENDS Pipeline

CONSTANTS MaxEvs, Templates, Mode      \* Mode: "proc" (dumps, columns fixed) | "cols" (column subsets, dump fixed)

Mk(tpl, t, k) ==
  LET E(code, cls, q, a) == [k |-> k, tid |-> t, code |-> code, cls |-> cls, q |-> q, a |-> a, cc |-> 0, sc |-> 0]
      o == IF t = 1 THEN 2 ELSE 1 IN
  CASE tpl = "NTDo" -> E(1, "NTD", 0, [ntid |-> o, pid |-> 5])
    [] tpl = "NTDs" -> E(1, "NTD", 0, [ntid |-> t, pid |-> 6])
    [] tpl = "TPID" -> E(2, "TPID", 0, [pid |-> 7])
    [] tpl = "THD"  -> E(3, "THD", 0, [pid |-> 8, ttid |-> t])
    [] tpl = "THDo" -> E(3, "THD", 0, [pid |-> 9, ttid |-> o])
    [] tpl = "PS"   -> E(4, "PERF", 1, [ti |-> TRUE, us |-> FALSE])
    [] tpl = "PE"   -> E(4, "PERF", 2, [ti |-> TRUE, us |-> FALSE])
    [] tpl = "X"    -> E(5, "SYS0", 0, [x |-> 0])
    [] tpl = "TERMo" -> E(6, "TERM", 0, [ttid |-> o])

RECURSIVE SeqsUpTo(_, _)
SeqsUpTo(S, n) == IF n = 0 THEN {<<>>}
                  ELSE LET P == SeqsUpTo(S, n - 1) IN P \cup {Append(p, x) : p \in {q \in P : Len(q) = n - 1}, x \in S}
Shapes == SeqsUpTo(Templates \X {1, 2}, MaxEvs)
TMaps == {<<>>, <<[tid |-> 1, pid |-> 4, name |-> "m"]>>}

VARIABLES dump, show
vars == <<dump, show>>
ColNames == <<"ts", "name", "qual", "tid", "proc", "body">>
Init == /\ \E sh \in (IF Mode = "proc" THEN Shapes ELSE {<<>>}), tm \in TMaps :
             dump = [tmap |-> tm, evs |-> [i \in 1..Len(sh) |-> Mk(sh[i][1], sh[i][2], i)]]
        /\ show \in (IF Mode = "cols" THEN SUBSET {1, 2, 3, 4, 5, 6} ELSE {{}})
Spec == Init /\ [][UNCHANGED vars]_vars

\* ---- (a) the declaration history, on the dump alone ---------------------------------------------
\* index at which a record (re)declares the process of thread T, and the pid it declares
DeclAt(T, j) ==
  LET e == dump.evs[j] IN
  CASE e.cls = "NTD" /\ e.a.ntid = T -> e.a.pid
    [] e.cls = "TPID" /\ e.tid = T -> e.a.pid
    [] e.cls = "THD" /\ e.a.ttid = T -> e.a.pid
    [] e.cls = "PERF" /\ e.q = QEND /\ OpenStart(dump.evs, j) # 0 /\ dump.evs[OpenStart(dump.evs, j)].a.ti ->
         \* the sampler re-applies the FIRST thread-info record of its window when the window closes
         LET w == RefWindow(dump.evs, j)
             th == SelectSeq(w, LAMBDA i : dump.evs[i].cls = "THD")
         IN IF Len(th) > 0 /\ dump.evs[th[1]].a.ttid = T THEN dump.evs[th[1]].a.pid ELSE -1
    [] OTHER -> -1
Declared(T, upto) ==
  LET D == {j \in 1..upto : DeclAt(T, j) # -1} IN
  IF D # {} THEN DeclAt(T, CHOOSE j \in D : \A m \in D : m <= j)
  ELSE IF \E i \in 1..Len(dump.tmap) : dump.tmap[i].tid = T THEN 4 ELSE -1

ProcessColumnIsDeclared ==
  LET trs == Decode(MapTables(dump.tmap), dump.evs) IN
  \A i \in 1..Len(trs) :
     LET tid == EvByK(dump, trs[i].first).tid
         p == ProcCol(trs[i].tpid, trs[i].pname, tid)
         d == Declared(tid, trs[i].k)
     IN IF d = -1 THEN ~p.known ELSE p.known /\ p.pid = d

\* ---- (b) columns ----------------------------------------------------------------------------------
Col(i) == <<ColNames[i]>>
RECURSIVE Line(_, _)
Line(sh, i) == IF i > 6 THEN <<>> ELSE (IF i \in sh THEN Col(i) ELSE <<>>) \o Line(sh, i + 1)
ColumnsCompose ==
  \A c \in show : Line(show \ {c}, 1) = SelectSeq(Line(show, 1), LAMBDA x : x # ColNames[c])
=============================================================================
