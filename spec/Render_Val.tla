----------------------------- MODULE Render_Val -------------------------------
(* code -> spec for C09 / C10: labelled renderings of the real decoders (harness/render.py).         *)
(*  kind "pos" : one probe of one decoder, labels per parameter            -> Render!PositionVerdict   *)
(*  kind "res" : one END tuple of one BSD decoder; the result text parsed into parts                  *)
(*               [form: errno-name | errno-num | value | junk, ref: which probe word the number IS]  *)
(*               plus the dependency sets of the result part and of the call part                    *)
EXTENDS Render, Json, IOUtils

Obs == JsonDeserialize(IOEnv.OBS_FILE)

\* ref names the word the number equals: "e0".."e3" END words, "s0".."s3" START words, "other"
ResParts(o) == [i \in 1..Len(o.parts) |->
                  IF o.parts[i].form = "value" THEN [form |-> "value", v |-> IF o.parts[i].ref \in Set(o.okrefs) THEN 1 ELSE 0]
                  ELSE [form |-> o.parts[i].form, code |-> IF o.parts[i].ref = "e0" THEN 1 ELSE 0]]

ResultVerdict(o) ==
  IF o.exempt THEN "ok"
  ELSE IF Set(o.res.ds) # {} THEN "result-depends-on-START"
  ELSE IF o.calldep THEN "call-part-depends-on-END"
  ELSE IF \E i \in 1..Len(o.parts) : o.parts[i].form = "junk" THEN "unreadable-result"
  ELSE IF ~o.e0zero THEN
       (IF Len(o.parts) = 0 THEN "error-not-shown"
        ELSE IF \E i \in 1..Len(o.parts) : o.parts[i].form = "value" THEN "success-value-shown-with-error"
        ELSE IF ~ResultOK(ResParts(o), 1, 1) THEN "wrong-error-code"
        ELSE IF Set(o.res.de) # {} THEN "error-result-depends-on-other-END-word"
        ELSE "ok")
  ELSE (IF \E i \in 1..Len(o.parts) : o.parts[i].form \in {"errno-name", "errno-num"} THEN "errno-shown-on-success"
        ELSE IF ~ResultOK(ResParts(o), 0, 1) THEN "success-value-not-the-return-word"
        ELSE IF ~(Set(o.res.de) \subseteq Set(o.okdeps)) THEN "result-depends-on-other-END-word"
        ELSE "ok")

Verdict(o) == IF o.kind = "pos" THEN PositionVerdict(o) ELSE ResultVerdict(o)

ASSUME PrintT(<<"VAL", Len(Obs)>>)
ASSUME \A i \in 1..Len(Obs) : LET v == Verdict(Obs[i]) IN v = "ok" \/ PrintT(<<"REJ", Obs[i].id, v>>)

VARIABLE dummy
Spec == dummy = 0 /\ [][UNCHANGED dummy]_dummy
=============================================================================
