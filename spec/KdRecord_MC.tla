---------------------------- MODULE KdRecord_MC -----------------------------
(* M |= P for C01: every byte position x every byte value on four base records.                    *)
EXTENDS KdRecord

Base1 == [i \in 1..RecLen |-> 0]
Base2 == [i \in 1..RecLen |-> 255]
Base3 == [i \in 1..RecLen |-> (i * 37 + 11) % 256]
Base4 == [i \in 1..RecLen |-> (i * 101 + 7 * (i \div 8)) % 256]
CONSTANT BaseIds
BaseOf(i) == CASE i = 1 -> Base1 [] i = 2 -> Base2 [] i = 3 -> Base3 [] OTHER -> Base4
Bases == {BaseOf(i) : i \in BaseIds}

VARIABLES base, pos, val
vars == <<base, pos, val>>

Mut == [base EXCEPT ![pos] = val]

Init == base \in Bases /\ pos \in 1..RecLen /\ val \in Byte
Next == UNCHANGED vars
Spec == Init /\ [][Next]_vars

TypeOK == LET e == Decode(Mut) IN
  /\ e.qual \in 0..3
  /\ \A i \in 1..4 : e.eventid[i] \in Byte
  /\ e.eventid[1] % 4 = 0

RebuildExact == Rebuild(Decode(Mut)) = Slice(Mut, 1, 52)

ValuesAreWordsOfData == LET e == Decode(Mut) IN
  \A k \in 1..4 : e.values[k] = Slice(e.data, 8 * (k - 1) + 1, 8 * k)

IdQualReassemble == LET e == Decode(Mut) IN
  /\ e.eventid[1] + e.qual = e.debugid[1]
  /\ \A i \in 2..4 : e.eventid[i] = e.debugid[i]

\* locality: changing byte `pos` changes only the fields that own it; bytes 53..64 change nothing
Locality == LET e0 == Decode(base) e1 == Decode(Mut) IN
  /\ \A f \in Fields : pos \notin Owner[f] => e1[f] = e0[f]
  /\ \A k \in 1..4 : pos \notin ValuesOwner(k) => e1.values[k] = e0.values[k]
  /\ (pos \in 1..52 /\ val # base[pos]) => e1 # e0          \* and every owned byte is observable

=============================================================================
