---------------------------- MODULE Container_MC -----------------------------
(* M |= P for C02 / C03: histories of up to MaxParses parses, on ONE reader state (shared tables),  *)
(* over a generated set of structural file values: thread maps with duplicate keys, every chunking  *)
(* of up to 3 records, every block sequence up to MaxBlocks over the 7 tags (repeats, both orders). *)
EXTENDS Container

CONSTANTS MaxParses, MaxBlocks,
          DedupChunkHead     \* FALSE = the reader as it is.  TRUE = deliberate deviation (negative control): a reader that
                             \* "reports an overlapping record once" - drops the first record of a chunk when it equals the
                             \* record read just before it.  Record VALUES may repeat (the kernel logs equal records).

E(t, p, n) == [tid |-> t, pid |-> p, name |-> n]
TMaps == {<<>>, <<E(0, 0, "k")>>, <<E(1, 1, "a")>>, <<E(1, 1, "a"), E(1, 2, "b")>>, <<E(1, 1, "a"), E(2, 1, "c")>>, <<E(2, 2, "d")>>}
RecSeqs == {<<>>, <<1>>, <<1, 2>>, <<1, 1>>, <<2, 1, 1>>}                  \* values, not positions: equal records occur
Chunkings == {<< <<>> >>, << <<1>> >>, << <<1, 2, 3>> >>, << <<1>>, <<2, 3>> >>, << <<1, 2>>, <<3>> >>,
              << <<1>>, <<2>>, <<3>> >>, << <<>>, <<1, 2, 3>> >>, << <<1, 2, 3>>, <<>> >>,
              \* equal records: next to each other inside a chunk, across a chunk boundary, across an empty chunk
              << <<1, 1>> >>, << <<1>>, <<1>> >>, << <<1>>, <<>>, <<1, 2>> >>, << <<2, 1>>, <<1, 1>>, <<1>> >>}
L(cm, p, t, pid) == [cm |-> cm, p |-> p, tid |-> t, pid |-> pid]
BlockSet == { [tag |-> "codes", txt |-> "x"], [tag |-> "codes", txt |-> "y"],
              [tag |-> "kexts", bins |-> <<1>>], [tag |-> "kexts", bins |-> <<2, 3>>],
              [tag |-> "dyld", bins |-> <<1>>, extra |-> 7], [tag |-> "dyld", bins |-> <<2>>, extra |-> 8],
              [tag |-> "procs", val |-> 1], [tag |-> "procs", val |-> 2], [tag |-> "images", val |-> 3],
              [tag |-> "logs", evs |-> <<L(0, 1, 3, 9)>>], [tag |-> "logs", evs |-> <<L(0, -1, 3, 9), L(1, 0, 0, 4)>>],
              [tag |-> "strings", idx |-> <<"m", "P">>], [tag |-> "other"] }
RECURSIVE SeqsUpTo(_, _)
SeqsUpTo(S, n) == IF n = 0 THEN {<<>>}
                  ELSE LET P == SeqsUpTo(S, n - 1) IN P \cup {Append(p, x) : p \in {q \in P : Len(q) = n - 1}, x \in S}
AtMostOneStrings(bs) == Cardinality({i \in 1..Len(bs) : bs[i].tag = "strings"}) <= 1
BlockSeqs == {bs \in SeqsUpTo(BlockSet, MaxBlocks) : AtMostOneStrings(bs)}

V2Files == {[ver |-> 2, tmap |-> tm, recs |-> r] : tm \in TMaps, r \in RecSeqs}
V3Files == {[ver |-> 3, tmap |-> tm, chunks |-> c, blocks |-> b] : tm \in {<<>>, <<E(1, 1, "a"), E(1, 2, "b")>>},
                                                                   c \in Chunkings, b \in BlockSeqs}
Files == V2Files \cup V3Files

\* the deviating reader (only its event part differs): previous = the record read last, whatever chunk it was in
RECURSIVE DedupFlatten(_, _, _)
DedupFlatten(chunks, i, prev) ==
  IF i > Len(chunks) THEN <<>>
  ELSE LET c    == chunks[i]
           kept == IF c # <<>> /\ c[1] = prev THEN Tail(c) ELSE c
           last == IF c = <<>> THEN prev ELSE c[Len(c)]
       IN kept \o DedupFlatten(chunks, i + 1, last)
Reader(s, f) ==
  IF DedupChunkHead /\ f.ver = 3
  THEN LET r == ParseFile(s, f)
           nev == Len(FlattenChunks(f.chunks, 1))
           evs == DedupFlatten(f.chunks, 1, 0)
       IN [r EXCEPT !.yields = [i \in 1..Len(evs) |-> Ev(evs[i])] \o SubSeq(r.yields, nev + 1, Len(r.yields))]
  ELSE ParseFile(s, f)

VARIABLES st, n, lastf, lasty
vars == <<st, n, lastf, lasty>>
Init == st = InitReader /\ n = 0 /\ lastf = [ver |-> 0] /\ lasty = <<>>
Next == /\ n < MaxParses
        /\ \E f \in Files : LET r == Reader(st, f) IN st' = r.st /\ lasty' = r.yields /\ lastf' = f
        /\ n' = n + 1
Spec == Init /\ [][Next]_vars

\* ---- properties -----------------------------------------------------------------------------------
Parsed == n > 0
Blocks(tag) == IF lastf.ver = 3 THEN SelectSeq(lastf.blocks, LAMBDA b : b.tag = tag) ELSE <<>>
RECURSIVE CatBins(_, _)
CatBins(bs, i) == IF i > Len(bs) THEN <<>> ELSE bs[i].bins \o CatBins(bs, i + 1)
RECURSIVE CatTxt(_, _)
CatTxt(bs, i) == IF i > Len(bs) THEN "" ELSE bs[i].txt \o CatTxt(bs, i + 1)
RECURSIVE CatEvs(_, _)
CatEvs(bs, i) == IF i > Len(bs) THEN <<>> ELSE bs[i].evs \o CatEvs(bs, i + 1)
AllLogs == CatEvs(Blocks("logs"), 1)
AllRecs == IF lastf.ver = 2 THEN lastf.recs ELSE FlattenChunks(lastf.chunks, 1)

\* C02/C03: exactly the records, in file order, each once; every event before any log; every log
YieldsExact ==
  Parsed =>
    /\ Len(lasty) = Len(AllRecs) + Len(AllLogs)
    /\ \A i \in 1..Len(AllRecs) : lasty[i] = Ev(AllRecs[i])
    /\ \A i \in 1..Len(AllLogs) : lasty[Len(AllRecs) + i].k = "log"

\* however the events are split across chunks
ChunkingInvariance ==
  (Parsed /\ lastf.ver = 3) =>
    ParseFile(InitReader, [lastf EXCEPT !.chunks = <<AllRecs>>]).yields = lasty

\* C02: tables = the file's thread map (later wins), no residue of earlier parses on the same tables
NoResidue ==
  Parsed => LET fresh == ParseFile(InitReader, lastf).st IN
            /\ st.tpid = fresh.tpid /\ st.pname = fresh.pname
            /\ lastf.ver = 3 => st.meta = fresh.meta       \* metadata attributes are reset by every v3 parse
TablesAreTheMap ==
  (Parsed /\ (lastf.ver = 2 \/ AllLogs = <<>>)) =>
     (st.tpid = MapOf(lastf.tmap).tpid /\ st.pname = MapOf(lastf.tmap).pname)
LogsExtendTables ==
  (Parsed /\ lastf.ver = 3) =>
     \A i \in 1..Len(AllLogs) :
        LET it == lasty[Len(AllRecs) + i] IN
        (it.proc # "" /\ it.tid # 0) => (it.tid \in DOMAIN st.tpid /\ it.pid \in DOMAIN st.pname)

\* C03: metadata sections
MetaExact ==
  (Parsed /\ lastf.ver = 3) =>
    /\ st.meta.kexts = CatBins(Blocks("kexts"), 1)
    /\ st.meta.dyld.bins = CatBins(Blocks("dyld"), 1)
    /\ (Blocks("dyld") # <<>> => st.meta.dyld.extra = Blocks("dyld")[1].extra)
    /\ (Blocks("procs") # <<>> => st.meta.procs = Blocks("procs")[Len(Blocks("procs"))].val)
    /\ (Blocks("procs") = <<>> => st.meta.procs = 0)
    /\ st.meta.codes = CatTxt(Blocks("codes"), 1)
LogStringsResolved ==
  (Parsed /\ lastf.ver = 3) =>
    LET idx == IF Blocks("strings") = <<>> THEN <<>> ELSE Blocks("strings")[1].idx IN
    \A i \in 1..Len(AllLogs) : lasty[Len(AllRecs) + i].msg = Str(idx, AllLogs[i].cm)
=============================================================================
