----------------------------- MODULE Sessions_MBT -----------------------------
(* spec -> code for the generator-grain object: every SCHEDULE of caller actions (requests made, single next() calls,    *)
(* settings assigned or edited in place) that Sessions_MC explores is exported; harness/sessions.py replays each on a    *)
(* real PyKdebugParser over real dumps and Sessions_Val judges what came out.  (The model's own small dumps only shape     *)
(* the schedules: how many next() calls a listing takes before it ends.)                                                  *)
EXTENDS Sessions_MC, Json

VARIABLE acts
mvars == <<so, gens, steps, acts>>
MInit == Init /\ acts = <<>>
MNext ==
  /\ steps < MaxSteps /\ steps' = steps + 1
  /\ \/ /\ Len(gens) < MaxGens
        /\ \E kind \in Kinds, d \in 1..Len(Dumps) : \E c \in CodesFor(kind) :
              /\ gens' = Append(DisturbOpen(gens, kind), NewGen(so, kind, d, c))
              /\ so' = OpenObj(so, kind, d, c)
              /\ acts' = Append(acts, [op |-> "open", kind |-> kind, d |-> d, codes |-> c])
     \/ \E i \in 1..Len(gens) :
              /\ ~gens[i].done /\ ~gens[i].dirty
              /\ LET r == Adv(so, gens[i], Dumps[gens[i].d], Tables) IN
                   /\ so' = r.so
                   /\ gens' = [Disturb(gens, i) EXCEPT ![i] = r.g]
              /\ acts' = Append(acts, [op |-> "adv", g |-> i])
     \/ \E cfg \in Cfgs, inplace \in BOOLEAN :
              /\ cfg # CfgOf(so.o)
              /\ so' = SetCfgObj(so, cfg, inplace)
              /\ gens' = [j \in 1..Len(gens) |-> IF gens[j].done THEN gens[j] ELSE [gens[j] EXCEPT !.dirty = TRUE, !.clean = FALSE]]
              /\ acts' = Append(acts, [op |-> "cfg", cfg |-> cfg, inplace |-> inplace])
MSpec == MInit /\ [][MNext]_mvars
Export == steps = MaxSteps => PrintT(<<"BEH", ToJson(acts)>>)
=============================================================================
