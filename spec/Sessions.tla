------------------------------ MODULE Sessions -------------------------------
(***************************************************************************************************)
(* The PyKdebugParser object at GENERATOR grain.  Pipeline.tla treats a request as one atomic step; *)
(* the code returns lazy iterators (pykdebugparser.py: filter / map objects around the generators   *)
(* KdBufParser.parse, TracesParser.feed_generator, CallstacksParser.feed_generator), so a caller    *)
(* may hold several listings of one object, read them alternately, abandon one half way (it stays   *)
(* alive while referenced) and change options in between.  Here                                      *)
(*    Open(kind, dump, codes)   = what runs when the request method is CALLED                       *)
(*    Advance(g)                = one next() on the listing: consume events until an item comes out  *)
(*    SetCfg(cfg, inplace)      = the caller assigns / mutates the filter settings                   *)
(* and every piece of state has an explicit HOME: the object (filter settings, thread / process     *)
(* tables, image table) or the generator (position in the file, class list in force, code table,    *)
(* the TracesParser instance with its open windows and last-data slots).  The variants move one     *)
(* piece to the wrong home - the realistic slips ("cache it on self"):                               *)
(*   "clsOnObject"    class list in force kept on the object, overwritten by the next request        *)
(*   "codesOnObject"  code table of formatted_kevents kept on the object                             *)
(*   "tpReused"       TracesParser kept between requests, reset forgets the last-data slots          *)
(*   "imgClearAtEnd"  image table cleared when a callstack listing ENDS instead of when it starts    *)
(*   "subSnapshot"    subclass filter cached, refreshed only when the list OBJECT is replaced        *)
(*   "clearAtOpen"    thread / process tables cleared when a listing is REQUESTED (call time), filled at  *)
(*                    its first next(): a request made but not yet read wipes what a listing in progress    *)
(*                    learned, and is itself filled on top of what others wrote meanwhile                   *)
(*   "namesOnObject"  thread names and global strings learned by a trace listing kept on the object and    *)
(*                    handed to the next TracesParser: a record that is read BEFORE the record that names   *)
(*                    its thread shows, in the second listing of the same dump, what the first one learned  *)
(* Properties (Sessions_MC): a listing read without anything else happening in between equals the   *)
(* atomic reference of Pipeline.tla whatever happened before (CleanIsAtomic); under any interleaving *)
(* the selection / order / names of every listing still equal the reference (SelectionIsAtomic).    *)
(* Used for C06, C12, C13, C14, C15, C19.                                                           *)
(***************************************************************************************************)
EXTENDS Pipeline

CONSTANT SVariant

\* code tables of formatted_kevents: table id -> set of named codes; "-" = name not observed (raw listing)
NameOf(tables, c, e) == IF c = "-" THEN "-" ELSE IF e.code \in tables[c] THEN c ELSE "hex"

CfgOf(o) == [ftid |-> o.ftid, fproc |-> o.fproc, fclass |-> o.fclass, fsub |-> o.fsub]
AsObj(cfg) == [InitObj EXCEPT !.ftid = cfg.ftid, !.fproc = cfg.fproc, !.fclass = cfg.fclass, !.fsub = cfg.fsub]

\* the object: Pipeline's obj plus the homes the variants (mis)use
InitSObj == [o |-> InitObj, effcls |-> <<>>, codes |-> "-", tp |-> InitState, tpcodes |-> "none",
             subcache |-> <<>>, subident |-> 0, cacheident |-> 0]

IsTr(kind) == kind \in {"tr", "cs"}

\* ---- Open: the part of the request method that runs at call time -------------------------------
\* everything a listing reads later is bound here (settings changed afterwards make the listing "dirty":
\* what a half-read listing does after the caller changed options is not claimed)
NewGen(so, kind, d, codes) ==
  LET obj == so.o
      fresh == SVariant # "tpReused" \/ so.tpcodes # codes
      s0 == IF SVariant = "namesOnObject" THEN [InitState EXCEPT !.tname = so.tp.tname, !.gstr = so.tp.gstr]
            ELSE IF fresh THEN InitState
            ELSE [so.tp EXCEPT !.open = InitState.open, !.gstr = EmptyFn, !.tname = EmptyFn]     \* reset() forgets nt / ex
  IN [kind |-> kind, d |-> d, codes |-> codes, cfg |-> CfgOf(obj),
      pre |-> IF IsTr(kind) THEN EffClass(obj) ELSE obj.fclass,
      ftid |-> obj.ftid,
      addT |-> IsTr(kind) /\ AddTrace(obj), addF |-> IsTr(kind) /\ AddFs(obj), addP |-> IsTr(kind) /\ AddPerf(obj),
      s |-> s0, pos |-> 1, started |-> FALSE, done |-> FALSE, clean |-> TRUE, dirty |-> FALSE, out |-> <<>>]

OpenObj(so, kind, d, codes) ==
  LET obj == so.o IN
  [so EXCEPT !.o.img = IF kind = "cs" /\ SVariant # "imgClearAtEnd" THEN <<>> ELSE @,
             !.o.tpid = IF SVariant = "clearAtOpen" THEN EmptyFn ELSE @,
             !.o.pname = IF SVariant = "clearAtOpen" THEN EmptyFn ELSE @,
             !.effcls = IF IsTr(kind) THEN EffClass(obj) ELSE obj.fclass,
             !.codes = codes,
             !.tpcodes = IF IsTr(kind) THEN codes ELSE @]

\* ---- what a listing reads while it is consumed ---------------------------------------------------
PreClass(so, g) == IF SVariant = "clsOnObject" THEN so.effcls ELSE g.pre
SubNow(so, g)  == IF SVariant = "subSnapshot" THEN so.subcache ELSE g.cfg.fsub
CodesNow(so, g) == IF SVariant = "codesOnObject" /\ g.kind = "fkev" THEN so.codes ELSE g.codes

EvPass(so, g, e) ==
  IF IsTr(g.kind) THEN EvSat(NoneTid, PreClass(so, g), SubNow(so, g), e)
  ELSE EvSat(g.ftid, PreClass(so, g), SubNow(so, g), e)

\* ---- Advance for the event listings: first event at or after pos that passes ----------------------
RECURSIVE ScanKev(_, _, _, _, _, _)
ScanKev(so, g, dump, tables, tabs, i) ==
  IF i > Len(dump.evs) THEN [found |-> FALSE, pos |-> i]
  ELSE LET e == dump.evs[i] IN
       IF EvPass(so, g, e)
       THEN [found |-> TRUE, pos |-> i + 1,
             item |-> [k |-> e.k, name |-> NameOf(tables, CodesNow(so, g), e), proc |-> ProcCol(tabs.tpid, tabs.pname, e.tid)]]
       ELSE ScanKev(so, g, dump, tables, tabs, i + 1)

\* ---- Advance for the trace listing: feed events until a trace passes the trace-level filters -----
PostOK(g, dump, out, tabs) ==
  LET e1 == EvByK(dump, out.win[1]) IN
  /\ (g.cfg.ftid = NoneTid \/ e1.tid = g.cfg.ftid)
  /\ ProcSat(g.cfg.fproc, tabs, e1.tid)
  /\ ~(g.addT /\ e1.cc = DBG_TRACE)
  /\ ~(g.addF /\ e1.cc = DBG_FSYSTEM)
  /\ ~(g.addP /\ e1.cc = DBG_PERF)

RECURSIVE ScanTr(_, _, _, _, _, _)
ScanTr(so, g, dump, tabs, s, i) ==
  IF i > Len(dump.evs) THEN [found |-> FALSE, pos |-> i, tabs |-> tabs, s |-> s]
  ELSE LET e == dump.evs[i] IN
       IF ~EvPass(so, g, e) THEN ScanTr(so, g, dump, tabs, s, i + 1)
       ELSE LET r  == Step([s EXCEPT !.tpid = tabs.tpid, !.pname = tabs.pname], e)      \* the tables are the object's
                t2 == [tpid |-> r.s.tpid, pname |-> r.s.pname]
            IN IF r.out.emit /\ PostOK(g, dump, r.out, t2)
               THEN [found |-> TRUE, pos |-> i + 1, tabs |-> t2, s |-> r.s, tr |-> r.out, k |-> e.k]
               ELSE ScanTr(so, g, dump, t2, r.s, i + 1)

TrItem(dump, res) ==
  [k |-> res.k, first |-> res.tr.win[1], proc |-> ProcCol(res.tabs.tpid, res.tabs.pname, EvByK(dump, res.tr.win[1]).tid),
   f |-> res.tr.f]                   \* the decoded fields = the text of the trace ("identical text")

\* ---- Advance for the callstack listing: traces until one yields a callstack ------------------------
RECURSIVE ScanCs(_, _, _, _, _, _, _)
ScanCs(so, g, dump, tabs, s, img, i) ==
  LET t == ScanTr(so, g, dump, tabs, s, i) IN
  IF ~t.found THEN [found |-> FALSE, pos |-> t.pos, tabs |-> t.tabs, s |-> t.s, img |-> img]
  ELSE LET c == CS!CsStep(img, t.tr) IN
       IF c.cs.emit THEN [found |-> TRUE, pos |-> t.pos, tabs |-> t.tabs, s |-> t.s, img |-> c.img,
                          item |-> [start |-> c.cs.start, frames |-> c.cs.frames]]
       ELSE ScanCs(so, g, dump, t.tabs, t.s, c.img, t.pos)

\* ---- Advance for the log listing (os_log_events): the event records are passed over, then every log record of the dump
\* is decoded in order; a record that names a process and a thread extends the tables AS IT IS PASSED (kept or not)
LogExt(tabs, l) == IF l.proc # "" /\ l.tid # NoneTid
                   THEN [tpid |-> Put(tabs.tpid, l.tid, l.pid), pname |-> Put(tabs.pname, l.pid, l.proc)] ELSE tabs
RECURSIVE ScanLogs(_, _, _, _)
ScanLogs(g, dump, tabs, j) ==
  IF j > Len(dump.logs) THEN [found |-> FALSE, pos |-> j, tabs |-> tabs]
  ELSE LET l == dump.logs[j]
           t2 == LogExt(tabs, l)
       IN IF LogSat(AsObj(g.cfg), l)
          THEN [found |-> TRUE, pos |-> j + 1, tabs |-> t2, item |-> [i |-> l.i, proc |-> ProcCol(t2.tpid, t2.pname, l.tid)]]
          ELSE ScanLogs(g, dump, t2, j + 1)

\* one next() of listing g: [so, g] after it and the item (or none)
Adv(so, g, dump, tables) ==
  LET obj  == so.o
      tab0 == IF g.started THEN [tpid |-> obj.tpid, pname |-> obj.pname]
              ELSE IF SVariant = "clearAtOpen" THEN FillMap(dump.tmap, 1, obj.tpid, obj.pname)     \* only filled, on top of what is there
              ELSE MapTables(dump.tmap)                                                          \* first next(): header, thread map (clear, fill)
  IN IF g.kind = "logs" THEN
       LET r == ScanLogs(g, dump, tab0, g.pos) IN
       [so |-> [so EXCEPT !.o.tpid = r.tabs.tpid, !.o.pname = r.tabs.pname],
        g |-> [g EXCEPT !.started = TRUE, !.pos = r.pos, !.done = ~r.found, !.out = IF r.found THEN Append(@, r.item) ELSE @],
        found |-> r.found, item |-> IF r.found THEN r.item ELSE [k |-> 0]]
     ELSE IF ~IsTr(g.kind) THEN
       LET r == ScanKev(so, g, dump, tables, tab0, g.pos) IN
       [so |-> [so EXCEPT !.o.tpid = tab0.tpid, !.o.pname = tab0.pname],
        g |-> [g EXCEPT !.started = TRUE, !.pos = r.pos, !.done = ~r.found, !.out = IF r.found THEN Append(@, r.item) ELSE @],
        found |-> r.found, item |-> IF r.found THEN r.item ELSE [k |-> 0]]
     ELSE IF g.kind = "tr" THEN
       LET r == ScanTr(so, g, dump, tab0, g.s, g.pos)
           it == IF r.found THEN TrItem(dump, r) ELSE [k |-> 0]
       IN [so |-> [so EXCEPT !.o.tpid = r.tabs.tpid, !.o.pname = r.tabs.pname, !.tp = r.s],
           g |-> [g EXCEPT !.started = TRUE, !.pos = r.pos, !.done = ~r.found, !.s = r.s, !.out = IF r.found THEN Append(@, it) ELSE @],
           found |-> r.found, item |-> it]
     ELSE
       LET r == ScanCs(so, g, dump, tab0, g.s, obj.img, g.pos)
           img1 == IF ~r.found /\ SVariant = "imgClearAtEnd" THEN <<>> ELSE r.img
       IN [so |-> [so EXCEPT !.o.tpid = r.tabs.tpid, !.o.pname = r.tabs.pname, !.o.img = img1, !.tp = r.s],
           g |-> [g EXCEPT !.started = TRUE, !.pos = r.pos, !.done = ~r.found, !.s = r.s, !.out = IF r.found THEN Append(@, r.item) ELSE @],
           found |-> r.found, item |-> IF r.found THEN r.item ELSE [k |-> 0]]

\* the caller changes the filter settings: a new list object (replace) or the same list edited in place
SetCfgObj(so, cfg, inplace) ==
  LET ident == IF inplace THEN so.subident ELSE so.subident + 1
      stale == SVariant = "subSnapshot" /\ so.cacheident = ident      \* cache keyed by the identity of the list
  IN [so EXCEPT !.o.ftid = cfg.ftid, !.o.fproc = cfg.fproc, !.o.fclass = cfg.fclass, !.o.fsub = cfg.fsub,
                !.subident = ident,
                !.subcache = IF stale THEN @ ELSE cfg.fsub,
                !.cacheident = ident]

\* ---- the reference: Pipeline's atomic request on a fresh object with the settings bound at Open --
AtomicOut(g, dump, tables) ==
  LET obj == AsObj(g.cfg) IN
  IF g.kind = "logs" THEN
    LET RECURSIVE All(_, _)
        All(tabs, j) == IF j > Len(dump.logs) THEN <<>>
                        ELSE LET l == dump.logs[j]
                                 t2 == LogExt(tabs, l)
                             IN (IF LogSat(obj, l) THEN <<[i |-> l.i, proc |-> ProcCol(t2.tpid, t2.pname, l.tid)]>> ELSE <<>>)
                                \o All(t2, j + 1)
    IN All(MapTables(dump.tmap), 1)
  ELSE IF ~IsTr(g.kind) THEN
    LET evs == ReqKevents(obj, dump).out
        tabs == MapTables(dump.tmap)
    IN [i \in 1..Len(evs) |-> [k |-> evs[i].k, name |-> NameOf(tables, g.codes, evs[i]),
                               proc |-> ProcCol(tabs.tpid, tabs.pname, evs[i].tid)]]
  ELSE IF g.kind = "tr" THEN
    LET trs == RefTraces(obj, dump) IN
    [i \in 1..Len(trs) |-> [k |-> trs[i].k, first |-> trs[i].first,
                            proc |-> ProcCol(trs[i].tpid, trs[i].pname, EvByK(dump, trs[i].first).tid),
                            f |-> trs[i].out.f]]
  ELSE LET cs == CsFold(<<>>, RefTraces(obj, dump), 1).out IN
    [i \in 1..Len(cs) |-> [start |-> cs[i].cs.start, frames |-> cs[i].cs.frames]]

\* what of an item does not depend on the shared tables / image table
Sel(kind, it) == IF kind \in {"kev", "fkev"} THEN <<it.k, it.name>> ELSE IF kind = "tr" THEN <<it.k, it.first>>
                 ELSE IF kind = "logs" THEN <<it.i>> ELSE <<it.start>>
SelSeq(kind, xs) == [i \in 1..Len(xs) |-> Sel(kind, xs[i])]

IsPrefixOf(a, b) == Len(a) <= Len(b) /\ \A i \in 1..Len(a) : a[i] = b[i]
Agrees(g, got, want) == IsPrefixOf(got, want) /\ (g.done => Len(got) = Len(want))
=============================================================================
