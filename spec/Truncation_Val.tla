--------------------------- MODULE Truncation_Val ----------------------------
(* code -> spec for C06, real sizes.  One observation = one run of a public API of the real parser  *)
(* over a real dump cut at offset `cut`, under a counting reader:                                   *)
(*   layout  the segments of the complete file as the encoder laid them out: <<kind, start, end>>    *)
(*   api     "kevents" | "formatted_kevents" | "traces" | "formatted_traces"                         *)
(*   n       number of items reported before it stopped;  full = number reported for the whole dump *)
(*   prefix  TRUE iff the reported items equal the first n items of the complete dump's items       *)
(*   calls, bytes   read calls / bytes requested from the stream;  status "done" | "raised" | "budget" *)
(* The segment program below is the reader of Truncation.tla at segment grain: it predicts where a *)
(* cut stream stops and how many complete records precede that point.                               *)
EXTENDS Naturals, Sequences, FiniteSets, TLC, Json, IOUtils

Obs == JsonDeserialize(IOEnv.OBS_FILE)

Kind(s) == s[1]   Start(s) == s[2]   End(s) == s[3]

\* records that lie completely inside the cut, in the order the reader meets them; the reader stops at the
\* first segment (other than padding / filler, which is consumed bytewise) it cannot read completely
RECURSIVE Walk(_, _, _, _)
Walk(layout, i, cut, n) ==
  IF i > Len(layout) THEN [n |-> n, stopped |-> "done"]
  ELSE LET s == layout[i] IN
       IF End(s) <= cut THEN Walk(layout, i + 1, cut, IF Kind(s) = "rec" THEN n + 1 ELSE n)
       ELSE IF Kind(s) \in {"blk"} THEN [n |-> n, stopped |-> "done"]     \* a cut block ends the block list quietly
       ELSE IF Kind(s) = "rec" /\ Start(s) >= cut /\ layout[1][1] = "ver2" THEN [n |-> n, stopped |-> "done"]
       ELSE [n |-> n, stopped |-> "raised"]

Budget(cut) == 4 * cut + 4096

Verdict(o) ==
  LET w == Walk(o.layout, 1, o.cut, 0) IN
  IF o.status = "budget" THEN "no-termination-within-budget"
  ELSE IF o.calls > Budget(o.cut) \/ o.bytes > 64 * Budget(o.cut) THEN "reading-not-linear"
  ELSE IF ~o.prefix THEN "not-a-prefix"
  ELSE IF o.n > o.full THEN "more-than-full"
  ELSE IF o.api \in {"kevents", "formatted_kevents"} /\ o.n > w.n THEN "fabricated-from-partial-record"
  ELSE IF o.cut = End(o.layout[Len(o.layout)]) /\ o.n # o.full THEN "complete-file-incomplete"
  ELSE "ok"

ASSUME PrintT(<<"VAL", Len(Obs)>>)
ASSUME \A i \in 1..Len(Obs) : LET v == Verdict(Obs[i]) IN v = "ok" \/ PrintT(<<"REJ", Obs[i].id, v>>)

VARIABLE dummy
Spec == dummy = 0 /\ [][UNCHANGED dummy]_dummy
=============================================================================
