------------------------------- MODULE Host_Val -------------------------------
(* code -> spec for C18: names rendered by the real decoders under each (substituted) host platform. *)
(*  o = [id, host, kind: errno | signal | af | sock | level, num, shown (the text shown for it)]      *)
EXTENDS DarwinTables, Json, IOUtils, TLC
Obs == JsonDeserialize(IOEnv.OBS_FILE)
Verdict(o) ==
  IF "err" \in DOMAIN o THEN "raised"
  ELSE CASE o.kind = "errno" -> IF o.num \in 1..106 THEN (IF o.shown \in ErrnoAlias[o.num] THEN "ok" ELSE "errno-name-not-darwin")
                                 ELSE (IF o.shown = "" THEN "ok" ELSE "name-for-unknown-errno")
         [] o.kind = "signal" -> IF o.shown \in SignalAlias[o.num] THEN "ok" ELSE "signal-name-not-darwin"
         [] o.kind = "af" -> IF o.num \in DOMAIN AddrFamily THEN (IF o.shown \in AddrFamily[o.num] THEN "ok" ELSE "family-name-not-darwin") ELSE "ok"
         [] o.kind = "sock" -> IF o.shown = SockType[o.num] THEN "ok" ELSE "socket-type-name-not-darwin"
         [] o.kind = "level" -> IF (o.num = SolSocket) = (o.shown = "SOL_SOCKET") THEN "ok" ELSE "sol-socket-level-not-darwin"
         [] OTHER -> "ok"
ASSUME PrintT(<<"VAL", Len(Obs)>>)
ASSUME \A i \in 1..Len(Obs) : LET v == Verdict(Obs[i]) IN v = "ok" \/ PrintT(<<"REJ", Obs[i].id, v>>)
VARIABLE dummy
Spec == dummy = 0 /\ [][UNCHANGED dummy]_dummy
=============================================================================
