---------------------------- MODULE Callstacks_MBT ----------------------------
(* spec -> code for C15: export behaviours of Callstacks_MC (input traces and the callstack the spec *)
(* expects after each) ; the harness turns every input into records and replays on the real chain.  *)
EXTENDS Callstacks_MC, Json

VARIABLE hist
mvars == <<img, first, cs, n, hist>>
MInit == Init /\ hist = <<>>
MNext == /\ n < MaxLen
         /\ \E i \in Inputs : LET r == CsStep(img, i) IN
               /\ img' = r.img /\ cs' = r.cs /\ first' = Note(first, i)
               /\ hist' = Append(hist, [kind |-> i.cls, f |-> i.f,
                                        cs |-> IF r.cs.emit THEN [emit |-> TRUE, frames |-> r.cs.frames]
                                               ELSE [emit |-> FALSE, frames |-> <<>>]])
         /\ n' = n + 1
MSpec == MInit /\ [][MNext]_mvars
Export == n = MaxLen => PrintT(<<"BEH", ToJson(hist)>>)
=============================================================================
