----------------------------- MODULE Context_MC ------------------------------
(* M |= P for C07: every history up to MaxLen over consumers of context (path-taking syscalls of   *)
(* every lookup-selection rule, new-thread / exec string records, dyld string-id users, page faults *)
(* with undecoded nested records, samplers) and their providers, in every order, with every         *)
(* omission (the state space IS the set of omissions, repetitions and nestings).                    *)
(*  - totality: Pairing!Step is defined on every reachable (state, event) - TLC would stop with an  *)
(*    evaluation error otherwise (the mechanism has no error state);                               *)
(*  - omit rule: a missing piece is an empty / omitted field, and nothing is learned from it.       *)
EXTENDS Pairing

CONSTANTS MaxLen, Alphabet, Tids

Data(bs) == bs \o [i \in 1..(32 - Len(bs)) |-> 0]
Hdr8 == <<1, 2, 3, 4, 5, 6, 7, 8>>

Mk(tpl, t, k) ==
  LET E(code, cls, q, a) == [k |-> k, tid |-> t, code |-> code, cls |-> cls, q |-> q, a |-> a] IN
  CASE tpl = "S1s" -> E(1, "SYS1", 1, [x |-> 0])      [] tpl = "S1e" -> E(1, "SYS1", 2, [x |-> 0])
    [] tpl = "S2s" -> E(2, "SYS2", 1, [x |-> 0])      [] tpl = "S2e" -> E(2, "SYS2", 2, [x |-> 0])
    [] tpl = "SPs" -> E(3, "SPAWN", 1, [x |-> 0])     [] tpl = "SPe" -> E(3, "SPAWN", 2, [x |-> 0])
    [] tpl = "RAs" -> E(4, "RENAMEAT", 1, [x |-> 0])  [] tpl = "RAe" -> E(4, "RENAMEAT", 2, [x |-> 0])
    [] tpl = "LAs" -> E(5, "LINKAT", 1, [x |-> 0])    [] tpl = "LAe" -> E(5, "LINKAT", 2, [x |-> 0])
    [] tpl = "SLs" -> E(6, "SYMLINKAT", 1, [x |-> 0]) [] tpl = "SLe" -> E(6, "SYMLINKAT", 2, [x |-> 0])
    [] tpl = "FSs" -> E(7, "FSSNAP", 1, [x |-> 0])    [] tpl = "FSe" -> E(7, "FSSNAP", 2, [x |-> 0])
    [] tpl = "LK"  -> E(8, "LKP", 3, [data |-> Data(Hdr8 \o <<47, 96 + k>>)])
    [] tpl = "LKs" -> E(8, "LKP", 1, [data |-> Data(Hdr8 \o <<47, 65>>)])
    [] tpl = "LKn" -> E(8, "LKP", 0, [data |-> Data(<<66>>)])
    [] tpl = "LKe" -> E(8, "LKP", 2, [data |-> Data(<<67>>)])
    [] tpl = "NTD" -> E(9, "NTD", 0, [ntid |-> 5, pid |-> 50 + t])
    [] tpl = "NTS" -> E(10, "NTS", 3, [name |-> "nm"])
    [] tpl = "EXD" -> E(11, "EXD", 0, [pid |-> 60 + t])
    [] tpl = "EXS" -> E(12, "EXS", 3, [name |-> "ex"])
    [] tpl = "GS"  -> E(13, "GSTR", 3, [data |-> Data(<<0,0,0,0,0,0,0,0, 5,0,0,0,0,0,0,0, 71>>), sid |-> 5])
    [] tpl = "GSn" -> E(13, "GSTR", 0, [data |-> Data(<<72>>)])
    [] tpl = "U5"  -> E(14, "USESTR", 3, [sid |-> 5])
    [] tpl = "U9"  -> E(14, "USESTR", 3, [sid |-> 9])
    [] tpl = "U0"  -> E(14, "USESTR", 3, [sid |-> 0])
    [] tpl = "U5s" -> E(15, "USESTR", 1, [sid |-> 5])  [] tpl = "U5e" -> E(15, "USESTR", 2, [sid |-> 5])
    [] tpl = "VS"  -> E(16, "VMF", 1, [result |-> 0, ftype |-> 0])
    [] tpl = "VE"  -> E(16, "VMF", 2, [result |-> 0, ftype |-> 2])
    [] tpl = "RFA" -> E(17, "RFA", 0, [pid |-> 7, prot |-> 3])
    [] tpl = "RFAU" -> E(18, "RFAU", 0, [x |-> 0])
    [] tpl = "PS"  -> E(19, "PERF", 1, [ti |-> TRUE, us |-> TRUE])
    [] tpl = "PE"  -> E(19, "PERF", 2, [ti |-> TRUE, us |-> TRUE])
    [] tpl = "THD" -> E(20, "THD", 0, [pid |-> 8, ttid |-> t])
    [] tpl = "H2"  -> E(21, "UHDR", 0, [n |-> 2])
    [] tpl = "D"   -> E(22, "UDATA", 0, [frames |-> <<1, 2, 3, 4>>])
    [] tpl = "TERM" -> E(23, "TERM", 0, [ttid |-> 5])
    [] tpl = "TN"  -> E(24, "TNAME", 3, [data |-> Data(<<84>>)])
    [] tpl = "TNn" -> E(24, "TNAME", 0, [data |-> Data(<<85>>)])
    [] tpl = "K"   -> E(25, "KNOWN", 0, [x |-> 0])

VARIABLES s, hist, out, eff
vars == <<s, hist, out, eff>>
Init == s = InitState /\ hist = <<>> /\ out = NoTrace /\ eff = <<>>
Next == /\ Len(hist) < MaxLen
        /\ \E t \in Tids, tpl \in Alphabet :
             LET e == Mk(tpl, t, Len(hist) + 1)
                 r == Step(s, e)
             IN s' = r.s /\ hist' = Append(hist, e) /\ out' = r.out /\ eff' = r.eff
Spec == Init /\ [][Next]_vars

LastEv == hist[Len(hist)]
Arity(cls) == CASE cls = "SYS1" -> 1 [] cls = "SPAWN" -> 4 [] OTHER -> 2

\* every emitted trace is fully defined (every field of its class has a value: text possibly empty)
OmitRule ==
  (Len(hist) > 0 /\ out.emit) =>
    /\ out.cls \in PathClasses =>
         LET win == [i \in 1..Len(out.win) |-> hist[out.win[i]]]
             L == Lookups(win)
             shown == {i \in 1..Len(out.f.ps) : out.f.ps[i] # NoText}
         IN /\ Len(out.f.ps) = Arity(out.cls)
            /\ Cardinality(shown) <= Len(L)                       \* never more paths than lookups
            /\ (Len(L) = 0 => shown = {})                         \* no lookup => all paths empty
            /\ \A i \in shown : \E j \in 1..Len(L) : out.f.ps[i] = L[j].path   \* only looked-up paths
    /\ out.cls = "USESTR" => (out.f.text = IF LastEv.a.sid \in DOMAIN s.gstr THEN s.gstr[LastEv.a.sid] ELSE NoText)
    /\ out.cls = "NTS" => ((\E j \in 1..(Len(hist) - 1) : hist[j].cls = "NTD" /\ hist[j].tid = LastEv.tid) <=> eff # <<>>)
    /\ out.cls = "EXS" => ((\E j \in 1..(Len(hist) - 1) : hist[j].cls = "EXD" /\ hist[j].tid = LastEv.tid) <=> eff # <<>>)
    /\ out.cls = "TERM" => (out.f.pid = NonePid <=> ~\E j \in 1..(Len(hist) - 1) : hist[j].cls = "NTD")

\* the parser keeps going: whatever came before, a complete well-formed operation fed now decodes fully
TablesOnlyFromProviders ==
  /\ DOMAIN s.gstr \subseteq {5}
  /\ (DOMAIN s.gstr = {5}) <=> (\E j \in 1..Len(hist) : hist[j].cls = "GSTR" /\ HasS(hist[j].q))
  /\ DOMAIN s.pname \subseteq {50 + t : t \in Tids} \cup {60 + t : t \in Tids}
=============================================================================
