------------------------------ MODULE Container ------------------------------
(***************************************************************************************************)
(* The container reader (pykdebugparser/kd_buf_parser.py: KdBufParser.parse / parse_v2 / parse_v3   *)
(* / set_thread_map) at file grain, on STRUCTURAL file values.  Pure operators:                     *)
(*    ParseFile(st, f) = [st |-> reader state', yields |-> Seq(items)]                              *)
(* st = the two tables the caller shares between parses (threads_pids, pids_names) and the metadata *)
(* attributes of the reader object.  One disjunct per code path: thread map (clear, then fill,      *)
(* later entry wins), per-chunk record loop with MORE_EVENTS continuation, block dispatch by tag    *)
(* with the three accumulation rules, string-index inversion, logs after events, table extension    *)
(* by logs.  The byte level (tag scans, short reads, truncation) is Truncation.tla.                 *)
(* Used for C02, C03 (and as the first stage of Pipeline.tla).                                      *)
(*                                                                                                 *)
(* File values:                                                                                     *)
(*  [ver |-> 2, tmap |-> Seq([tid, pid, name]), recs |-> Seq(RecId)]                                *)
(*  [ver |-> 3, tmap |-> ..., chunks |-> Seq(Seq(RecId)), blocks |-> Seq([tag, ...payload])]        *)
(*  block payloads: "codes": txt (string)        "kexts": bins (Seq)     "dyld": bins (Seq), extra  *)
(*                  "procs": val                 "images": val                                      *)
(*                  "logs": evs (Seq([cm, p, tid, pid]))    "strings": idx (Seq of texts; id = position - 1) *)
(***************************************************************************************************)
EXTENDS Naturals, Integers, Sequences, FiniteSets, TLC

EmptyFn == <<>>
Put(f, k, v) == [x \in DOMAIN f \cup {k} |-> IF x = k THEN v ELSE f[x]]

InitMeta == [codes |-> "", kexts |-> <<>>, dyld |-> [set |-> FALSE, bins |-> <<>>, extra |-> 0],
             procs |-> 0, images |-> 0]
InitReader == [tpid |-> EmptyFn, pname |-> EmptyFn, meta |-> InitMeta]

\* set_thread_map: clear both tables, then one assignment pair per entry in file order (later wins)
RECURSIVE FillMap(_, _, _, _)
FillMap(tmap, i, tpid, pname) ==
  IF i > Len(tmap) THEN [tpid |-> tpid, pname |-> pname]
  ELSE FillMap(tmap, i + 1, Put(tpid, tmap[i].tid, tmap[i].pid), Put(pname, tmap[i].pid, tmap[i].name))
SetThreadMap(tmap) == FillMap(tmap, 1, EmptyFn, EmptyFn)

Ev(id) == [k |-> "ev", id |-> id]

RECURSIVE FlattenChunks(_, _)
FlattenChunks(chunks, i) == IF i > Len(chunks) THEN <<>> ELSE chunks[i] \o FlattenChunks(chunks, i + 1)

\* ---- version 2 ----------------------------------------------------------------------------------
ParseV2(st, f) ==
  LET m == SetThreadMap(f.tmap) IN
  [st |-> [st EXCEPT !.tpid = m.tpid, !.pname = m.pname],
   yields |-> [i \in 1..Len(f.recs) |-> Ev(f.recs[i])]]

\* ---- version 3 ----------------------------------------------------------------------------------
\* one additional-data block applied to (meta, pending logs, string index)
ApplyBlock(acc, b) ==
  CASE b.tag = "codes"  -> [acc EXCEPT !.meta.codes = @ \o b.txt]                       \* concatenated
    [] b.tag = "kexts"  -> [acc EXCEPT !.meta.kexts = @ \o b.bins]                      \* extended
    [] b.tag = "dyld"   -> IF ~acc.meta.dyld.set                                        \* first block: whole payload
                           THEN [acc EXCEPT !.meta.dyld = [set |-> TRUE, bins |-> b.bins, extra |-> b.extra]]
                           ELSE [acc EXCEPT !.meta.dyld.bins = @ \o b.bins]             \* later blocks: binaries extended
    [] b.tag = "procs"  -> [acc EXCEPT !.meta.procs = b.val]                            \* replaced
    [] b.tag = "images" -> [acc EXCEPT !.meta.images = b.val]                           \* replaced
    [] b.tag = "logs"   -> [acc EXCEPT !.logs = @ \o b.evs]
    [] b.tag = "strings" -> [acc EXCEPT !.idx = b.idx]
    [] OTHER -> acc                                                                      \* unknown tag: ignored

RECURSIVE ApplyBlocks(_, _, _)
ApplyBlocks(acc, blocks, i) == IF i > Len(blocks) THEN acc ELSE ApplyBlocks(ApplyBlock(acc, blocks[i]), blocks, i + 1)

Str(idx, id) == IF id >= 0 /\ id < Len(idx) THEN idx[id + 1] ELSE ""     \* string numbers start at 0
LogItem(idx, l) == [k |-> "log", msg |-> Str(idx, l.cm), proc |-> IF l.p = -1 THEN "" ELSE Str(idx, l.p),      \* -1: the record has no process key
                    tid |-> l.tid, pid |-> l.pid]

\* a log record naming a process and a thread extends the tables (kd_buf_parser.py:206-209)
RECURSIVE ExtendByLogs(_, _, _, _)
ExtendByLogs(items, i, tpid, pname) ==
  IF i > Len(items) THEN [tpid |-> tpid, pname |-> pname]
  ELSE LET it == items[i] IN
       IF it.proc # "" /\ it.tid # 0
       THEN ExtendByLogs(items, i + 1, Put(tpid, it.tid, it.pid), Put(pname, it.pid, it.proc))
       ELSE ExtendByLogs(items, i + 1, tpid, pname)

ParseV3(st, f) ==
  LET m    == SetThreadMap(f.tmap)
      evs  == FlattenChunks(f.chunks, 1)                           \* every chunk, in file order
      acc  == ApplyBlocks([meta |-> InitMeta, logs |-> <<>>, idx |-> <<>>], f.blocks, 1)   \* metadata reset per parse
      logs == [i \in 1..Len(acc.logs) |-> LogItem(acc.idx, acc.logs[i])]
      ext  == ExtendByLogs(logs, 1, m.tpid, m.pname)
  IN [st |-> [tpid |-> ext.tpid, pname |-> ext.pname, meta |-> acc.meta],
      yields |-> [i \in 1..Len(evs) |-> Ev(evs[i])] \o logs]        \* all events before any log

ParseFile(st, f) == IF f.ver = 2 THEN ParseV2(st, f) ELSE ParseV3(st, f)

\* ---- property side -------------------------------------------------------------------------------
\* the thread map as the statement reads it: for each key the LAST entry wins, nothing else is present
MapOf(tmap) ==
  LET tids == {tmap[i].tid : i \in 1..Len(tmap)}
      pids == {tmap[i].pid : i \in 1..Len(tmap)}
      LastT(t) == CHOOSE i \in 1..Len(tmap) : tmap[i].tid = t /\ \A j \in (i + 1)..Len(tmap) : tmap[j].tid # t
      LastP(p) == CHOOSE i \in 1..Len(tmap) : tmap[i].pid = p /\ \A j \in (i + 1)..Len(tmap) : tmap[j].pid # p
  IN [tpid |-> [t \in tids |-> tmap[LastT(t)].pid], pname |-> [p \in pids |-> tmap[LastP(p)].name]]

=============================================================================
