----------------------------- MODULE Render_MC --------------------------------
(* M |= P for C09 / C10.                                                                            *)
(* (a) C10: the transcription of serialize_result satisfies ResultOK for every error word 0..MaxErr, *)
(*     unknown and known, with and without success value; the three defective variants violate it.  *)
(* (b) C09: soundness of the differential labelling: for EVERY signature (sequence of <= Arity cells *)
(*     drawn from {argument j shown numerically, path of lookup i, symbol of argument j, constant})  *)
(*     the verdict of PositionVerdict on the labels INFERRED from the abstract renderer's            *)
(*     input/output behaviour is "ok" exactly when every numeric / symbolic cell at position k      *)
(*     renders argument k.                                                                          *)
EXTENDS Render

CONSTANTS Variant, MaxErr, Arity

KnownErr == 1..106

\* ---- (a) ----
Cells == {[kind |-> kd, src |-> j] : kd \in {"arg", "sym"}, j \in 0..3}
           \cup {[kind |-> "path", src |-> i] : i \in 0..1} \cup {[kind |-> "const", src |-> 0]}
RECURSIVE SeqsUpTo(_, _)
SeqsUpTo(S, n) == IF n = 0 THEN {<<>>}
                  ELSE LET P == SeqsUpTo(S, n - 1) IN P \cup {Append(p, x) : p \in {q \in P : Len(q) = n - 1}, x \in S}

VARIABLES mode, e0, e1, succ, sig
vars == <<mode, e0, e1, succ, sig>>
Init == \/ /\ mode = "result" /\ e0 \in 0..MaxErr /\ e1 \in {0, 5} /\ succ \in BOOLEAN /\ sig = <<>>
        \/ /\ mode = "position" /\ e0 = 0 /\ e1 = 0 /\ succ = FALSE /\ sig \in SeqsUpTo(Cells, Arity)
Spec == Init /\ [][UNCHANGED vars]_vars

ResultRule == mode = "result" => ResultOK(SerializeResult(Variant, e0, e1, succ, KnownErr), e0, e1)

\* ---- (b) abstract renderer: value of cell c under START words S (function 0..3 -> value) and lookups L ----
Val(c, S, L) == CASE c.kind = "arg" -> <<"n", S[c.src]>>
                  [] c.kind = "sym" -> <<"s", S[c.src]>>
                  [] c.kind = "path" -> <<"p", L[c.src]>>
                  [] OTHER -> <<"c", 0>>
S0 == [j \in 0..3 |-> 10 + j]
S1(j) == [S0 EXCEPT ![j] = 20 + j]
L0 == [i \in 0..1 |-> 30 + i]
L1(i) == [L0 EXCEPT ![i] = 40 + i]
ToSeq(S) == SelectSeq(<<0, 1, 2, 3>>, LAMBDA j : j \in S)
Infer(c, k) ==
  LET ds == {j \in 0..3 : Val(c, S1(j), L0) # Val(c, S0, L0)}
      dl == {i \in 0..1 : Val(c, S0, L1(i)) # Val(c, S0, L0)}
      eq == IF c.kind = "arg" THEN {j \in 0..3 : Val(c, S0, L0)[2] = S0[j] /\ \A m \in 0..3 : Val(c, S1(m), L0)[2] = S1(m)[j]} ELSE {}
  IN [pos |-> k - 1, kind |-> IF c.kind = "arg" THEN "num" ELSE IF c.kind = "path" THEN "path" ELSE "sym",
      ds |-> ToSeq(ds), de |-> <<>>, dl |-> SelectSeq(<<0, 1>>, LAMBDA i : i \in dl), eq |-> ToSeq(eq)]
Intended(s) == \A k \in 1..Len(s) : s[k].kind \in {"arg", "sym"} => s[k].src = k - 1
LabellingSound ==
  mode = "position" =>
    (PositionVerdict([unstable |-> FALSE, params |-> [k \in 1..Len(sig) |-> Infer(sig[k], k)]]) = "ok" <=> Intended(sig))
=============================================================================
