------------------------------ MODULE Callstacks ------------------------------
(***************************************************************************************************)
(* The CallstacksParser state machine (pykdebugparser/callstacks_parser.py): consumes the TRACES    *)
(* emitted by the TracesParser stage (Pairing!Step outputs) and keeps the image table               *)
(*    img : Seq([rank, id])   strictly ascending by load address (rank), first identity kept.       *)
(*  CsStep(img, out) = [img |-> img', cs |-> callstack or none]                                     *)
(* one disjunct per trace kind the code looks at: image-map record, launch trace (its sorted list   *)
(* of nested map + shared-cache records), sampler trace that carries user frames.                   *)
(***************************************************************************************************)
EXTENDS Naturals, Integers, Sequences, FiniteSets, TLC

NoCs == [emit |-> FALSE]
NoImg == -1

Has(img, r) == \E i \in 1..Len(img) : img[i].rank = r
\* insert_image: an address announced twice keeps its first identity; bisect keeps the table sorted
Insert(img, r, id) ==
  IF Has(img, r) THEN img
  ELSE LET lo == SelectSeq(img, LAMBDA e : e.rank < r)
           hi == SelectSeq(img, LAMBDA e : e.rank > r)
       IN lo \o <<[rank |-> r, id |-> id]>> \o hi

RECURSIVE InsertAll(_, _, _)
InsertAll(img, xs, i) == IF i > Len(xs) THEN img ELSE InsertAll(Insert(img, xs[i].rank, xs[i].id), xs, i + 1)

\* bisect(addresses, frame) - 1 : the image with the greatest load address not above the frame
Attr(img, x) ==
  LET below == SelectSeq(img, LAMBDA e : e.rank <= x) IN
  IF Len(below) = 0 THEN [x |-> x, id |-> NoImg, off |-> -1]
  ELSE [x |-> x, id |-> below[Len(below)].id, off |-> x - below[Len(below)].rank]

CsStep(img, out) ==
  IF ~out.emit THEN [img |-> img, cs |-> NoCs]
  ELSE CASE out.cls = "MAPA" -> [img |-> Insert(img, out.f.rank, out.f.id), cs |-> NoCs]
         [] out.cls = "LAUNCH" -> [img |-> InsertAll(img, out.f.imgs, 1), cs |-> NoCs]
         [] out.cls = "PERF" /\ out.f.frames # <<-1>> ->
              [img |-> img,
               cs |-> [emit |-> TRUE, start |-> out.win[1],
                       frames |-> [i \in 1..Len(out.f.frames) |-> Attr(img, out.f.frames[i])]]]
         [] OTHER -> [img |-> img, cs |-> NoCs]

\* ---- property side -------------------------------------------------------------------------------
StrictlyAscending(img) == \A i \in 1..(Len(img) - 1) : img[i].rank < img[i + 1].rank
\* the table as a function of the SET of first announcements (order independence)
Canon(first) ==      \* first: function rank -> id (first identity of each announced address)
  LET RECURSIVE Build(_, _)
      Build(rs, acc) == IF rs = {} THEN acc
                        ELSE LET m == CHOOSE r \in rs : \A q \in rs : r <= q
                             IN Build(rs \ {m}, Append(acc, [rank |-> m, id |-> first[m]]))
  IN Build(DOMAIN first, <<>>)
=============================================================================
