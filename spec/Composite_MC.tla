---------------------------- MODULE Composite_MC -----------------------------
(* M |= P for C20 (and the totality half of C07 for composites): every sequence up to MaxLen over  *)
(* an alphabet of composite openers/closers, their nested records of every kind and unrelated       *)
(* records, on one thread plus a second thread that injects the same nested records (which must     *)
(* never leak into the first thread's composite).  The properties are stated on the history:        *)
(* the nested records of a composite = the records of its window (Pairing!RefWindow).               *)
EXTENDS Pairing

CONSTANTS MaxLen, Alphabet, Tids

\* template -> event
Mk(tpl, t, k) ==
  LET E(code, cls, q, a) == [k |-> k, tid |-> t, code |-> code, cls |-> cls, q |-> q, a |-> a] IN
  CASE tpl = "VS"   -> E(1, "VMF", 1, [result |-> 0, ftype |-> 0])
    [] tpl = "VE0"  -> E(1, "VMF", 2, [result |-> 0, ftype |-> 3])
    [] tpl = "VE1"  -> E(1, "VMF", 2, [result |-> 1, ftype |-> 4])
    [] tpl = "RFA1" -> E(2, "RFA", 0, [pid |-> 10 + t, prot |-> 3])
    [] tpl = "RFA2" -> E(3, "RFA", 0, [pid |-> 20 + t, prot |-> 5])
    [] tpl = "RFAU" -> E(4, "RFAU", 0, [x |-> 0])
    [] tpl = "LS"   -> E(5, "LAUNCH", 1, [x |-> 0])
    [] tpl = "LE"   -> E(5, "LAUNCH", 2, [x |-> 0])
    [] tpl = "M1"   -> E(6, "MAPA", 0, [rank |-> 1, id |-> 1])
    [] tpl = "M3"   -> E(6, "MAPA", 0, [rank |-> 3, id |-> 3])
    [] tpl = "C2"   -> E(7, "SCA", 0, [rank |-> 2, id |-> 2])
    [] tpl = "C3"   -> E(7, "SCA", 0, [rank |-> 3, id |-> 4])
    [] tpl = "PS00" -> E(8, "PERF", 1, [ti |-> FALSE, us |-> FALSE])
    [] tpl = "PS10" -> E(8, "PERF", 1, [ti |-> TRUE, us |-> FALSE])
    [] tpl = "PS01" -> E(8, "PERF", 1, [ti |-> FALSE, us |-> TRUE])
    [] tpl = "PS11" -> E(8, "PERF", 1, [ti |-> TRUE, us |-> TRUE])
    [] tpl = "PE"   -> E(8, "PERF", 2, [ti |-> FALSE, us |-> FALSE])
    [] tpl = "THD"  -> E(9, "THD", 0, [pid |-> 30 + t, ttid |-> t])
    [] tpl = "H1"   -> E(10, "UHDR", 0, [n |-> 1])
    [] tpl = "H5"   -> E(10, "UHDR", 0, [n |-> 5])
    [] tpl = "D"    -> E(11, "UDATA", 0, [frames |-> <<k, k + 100, k + 200, k + 300>>])
    [] tpl = "X"    -> E(12, "SYS0", 0, [x |-> 0])

VARIABLES s, hist, out
vars == <<s, hist, out>>
Init == s = InitState /\ hist = <<>> /\ out = NoTrace
Next == /\ Len(hist) < MaxLen
        /\ \E t \in Tids, tpl \in Alphabet :
             LET e == Mk(tpl, t, Len(hist) + 1)
                 r == Step(s, e)
             IN s' = r.s /\ hist' = Append(hist, e) /\ out' = r.out
Spec == Init /\ [][Next]_vars

\* ---- the property, on the history --------------------------------------------------------------
Win == RefWindow(hist, Len(hist))          \* indices of the window of the END just fed
Nested(clsSet) == SelectSeq(Win, LAMBDA i : hist[i].cls \in clsSet)
IsEndOf(cls) == Len(hist) > 0 /\ hist[Len(hist)].q = QEND /\ hist[Len(hist)].cls = cls
                 /\ OpenStart(hist, Len(hist)) # 0

VmfExact ==
  IsEndOf("VMF") =>
    LET e == hist[Len(hist)]
        real == SelectSeq(Nested({"RFA", "RFAU"}), LAMBDA i : i # Win[1] /\ i # Len(hist))
    IN /\ out.emit
       /\ out.f.result = e.a.result
       /\ (e.a.result = 0 => out.f.ftype = e.a.ftype)
       /\ (e.a.result # 0 \/ Len(real) = 0) => (out.f.pid = NonePid /\ out.f.prot = -1)     \* omitted
       /\ (e.a.result = 0 /\ Len(real) > 0 /\ hist[real[1]].cls = "RFA") =>
             (out.f.pid = hist[real[1]].a.pid /\ out.f.prot = hist[real[1]].a.prot)

LaunchExact ==
  IsEndOf("LAUNCH") =>
    LET im == Nested({"MAPA", "SCA"})
        got == out.f.imgs
    IN /\ out.emit
       /\ Len(got) = Len(im)
       /\ \A i \in 1..(Len(got) - 1) : got[i].rank <= got[i + 1].rank              \* sorted by load address
       /\ \A r \in 0..5, d \in 0..5 :                                              \* same multiset
            Cardinality({i \in 1..Len(got) : got[i].rank = r /\ got[i].id = d})
              = Cardinality({i \in 1..Len(im) : hist[im[i]].a.rank = r /\ hist[im[i]].a.id = d})

PerfExact ==
  IsEndOf("PERF") =>
    LET st == hist[Win[1]]
        thd == Nested({"THD"})
        hdr == Nested({"UHDR"})
        dat == Nested({"UDATA"})
        all == Flatten([i \in 1..Len(dat) |-> hist[dat[i]].a.frames], 1)
    IN /\ out.emit
       /\ (out.f.thi # NonePid) <=> (st.a.ti /\ Len(thd) > 0)
       /\ (st.a.ti /\ Len(thd) > 0) => out.f.thi = hist[thd[1]].a.pid
       /\ (out.f.frames # NoFrames) <=> (st.a.us /\ Len(hdr) > 0)
       /\ (st.a.us /\ Len(hdr) > 0) => out.f.frames = Take(all, hist[hdr[1]].a.n)

\* header-less variants: nested records outside any sampler window produce only their own traces
HeaderlessCarriesNothing ==
  (Len(hist) > 0 /\ out.emit /\ hist[Len(hist)].cls \in {"THD", "UHDR", "UDATA", "RFA", "MAPA", "SCA"})
     => out.win = <<Len(hist)>>
=============================================================================
