---------------------------- MODULE Callstacks_Val ----------------------------
(* code -> spec for C15: the real chain TracesParser -> CallstacksParser driven one event at a time; *)
(* per event the callstack that came out (if any).  The fold composes Pairing!Step and CsStep.      *)
EXTENDS Pairing, Callstacks, Json, IOUtils

Obs == JsonDeserialize(IOEnv.OBS_FILE)

FramesOK(got, exp) ==
  /\ Len(got) = Len(exp)
  /\ \A i \in 1..Len(exp) : got[i][1] = exp[i].x /\ got[i][2] = exp[i].id /\ got[i][3] = exp[i].off

StepVerdict(o, i, s, img) ==
  LET e == o.events[i]
      g == o.steps[i]
      r == Step(s, e)
      c == CsStep(img, r.out)
  IN IF "err" \in DOMAIN g THEN "raised"
     ELSE IF g.emit # c.cs.emit THEN (IF g.emit THEN "spurious-callstack" ELSE "missing-callstack")
     ELSE IF ~g.emit THEN "ok"
     ELSE IF g.start # c.cs.start THEN "timestamp-not-of-START"
     ELSE IF g.tid # e.tid THEN "thread"
     ELSE IF Len(g.frames) # Len(c.cs.frames) THEN "frame-count"
     ELSE IF \E j \in 1..Len(g.frames) : g.frames[j][1] # c.cs.frames[j].x THEN "frame-addresses"
     ELSE IF ~FramesOK(g.frames, c.cs.frames) THEN "attribution"
     ELSE "ok"

RECURSIVE Fold(_, _, _, _)
Fold(o, i, s, img) ==
  IF i > Len(o.events) THEN "ok"
  ELSE LET v == StepVerdict(o, i, s, img)
           r == Step(s, o.events[i])
       IN IF v # "ok" THEN v \o "@" \o ToString(i)
          ELSE Fold(o, i + 1, r.s, CsStep(img, r.out).img)

Verdict(o) == IF Len(o.steps) # Len(o.events) THEN "shape" ELSE Fold(o, 1, InitState, <<>>)

ASSUME PrintT(<<"VAL", Len(Obs)>>)
ASSUME \A i \in 1..Len(Obs) : LET v == Verdict(Obs[i]) IN v = "ok" \/ PrintT(<<"REJ", Obs[i].id, v>>)

VARIABLE dummy
Spec == dummy = 0 /\ [][UNCHANGED dummy]_dummy
=============================================================================
