----------------------------- MODULE Pipeline_MC ------------------------------
(* M |= P for C12 / C13: every dump of <= MaxEvs events over a template alphabet (BSD syscalls,     *)
(* lookups, new-thread data/string records written by the PARENT thread, sampler thread-info,       *)
(* thread terminate, mach) on 2 threads x every filter configuration x request histories of <= 2    *)
(* requests on one object.                                                                          *)
EXTENDS Pipeline

CONSTANTS MaxEvs, Templates, FTids, FProcs, FClasses, FSubs

FProcAll == {[kind |-> "none"], [kind |-> "pid", pid |-> 5], [kind |-> "name", name |-> "p"], [kind |-> "both", pid |-> 5, name |-> "5"]}
FClassAll == {<<>>, <<4>>, <<7>>, <<3, 4>>, <<1>>}
FClassSmall == {<<>>, <<4>>, <<7>>}
FProcNone == {[kind |-> "none"]}
FClassNone == {<<>>}
FSubAll == {<<>>, <<1036>>}

Data(bs) == bs \o [i \in 1..(32 - Len(bs)) |-> 0]
Mk(tpl, t, k) ==
  LET E(code, cls, q, a, cc, sc) == [k |-> k, tid |-> t, code |-> code, cls |-> cls, q |-> q, a |-> a, cc |-> cc, sc |-> sc]
      o == IF t = 1 THEN 2 ELSE 1 IN
  CASE tpl = "Bs"  -> E(1, "SYS1", 1, [x |-> 0], 4, 1036)
    [] tpl = "Be"  -> E(1, "SYS1", 2, [x |-> 0], 4, 1036)
    [] tpl = "B2"  -> E(2, "SYS0", 3, [x |-> 0], 4, 1037)
    [] tpl = "LK"  -> E(3, "LKP", 3, [data |-> Data(<<1,1,1,1,1,1,1,1,47,97>>)], 3, 769)
    [] tpl = "NTDo" -> E(4, "NTD", 0, [ntid |-> o, pid |-> 5], 7, 1792)          \* parent announces the OTHER thread
    [] tpl = "NTS" -> E(5, "NTS", 3, [name |-> "p"], 7, 1793)
    [] tpl = "THD" -> E(6, "THD", 0, [pid |-> 5, ttid |-> t], 37, 9473)
    [] tpl = "TERMo" -> E(7, "TERM", 0, [ttid |-> o], 7, 1792)
    [] tpl = "M"   -> E(8, "SYS0", 0, [x |-> 0], 1, 320)
    [] tpl = "PS"  -> E(9, "PERF", 1, [ti |-> FALSE, us |-> TRUE], 37, 9472)
    [] tpl = "PE"  -> E(9, "PERF", 2, [ti |-> FALSE, us |-> TRUE], 37, 9472)
    [] tpl = "H2"  -> E(10, "UHDR", 0, [n |-> 2], 37, 9474)
    [] tpl = "D"   -> E(11, "UDATA", 0, [frames |-> <<0, 1, 2, 3>>], 37, 9474)
    [] tpl = "IMG" -> E(12, "MAPA", 0, [rank |-> 1, id |-> 1], 31, 7941)

RECURSIVE SeqsUpTo(_, _)
SeqsUpTo(S, n) == IF n = 0 THEN {<<>>}
                  ELSE LET P == SeqsUpTo(S, n - 1) IN P \cup {Append(p, x) : p \in {q \in P : Len(q) = n - 1}, x \in S}
Shapes == SeqsUpTo(Templates \X {1, 2}, MaxEvs)
DumpOf(shape, tm) == [tmap |-> tm, evs |-> [i \in 1..Len(shape) |-> Mk(shape[i][1], shape[i][2], i)]]
TMaps == {<<>>, <<[tid |-> 1, pid |-> 5, name |-> "p"]>>}

VARIABLES obj, dump, n, out1, out2
vars == <<obj, dump, n, out1, out2>>

Init == /\ \E sh \in Shapes, tm \in TMaps : dump = DumpOf(sh, tm)
        /\ \E ft \in FTids, fp \in FProcs, fc \in FClasses, fs \in FSubs :
              obj = [InitObj EXCEPT !.ftid = ft, !.fproc = fp, !.fclass = fc, !.fsub = fs]
        /\ n = 0 /\ out1 = <<>> /\ out2 = <<>>
Next == /\ n < 2
        /\ LET r == ReqTraces(obj, dump) IN
             /\ obj' = r.obj
             /\ IF n = 0 THEN out1' = Keys(r.out) /\ out2' = out2 ELSE out2' = Keys(r.out) /\ out1' = out1
        /\ n' = n + 1 /\ dump' = dump
Spec == Init /\ [][Next]_vars

\* C13: filters commute with decoding
MechEqRef == Keys(MechTraces(obj, dump)) = Keys(RefTraces(obj, dump))
\* C13: a repeated request yields the same output and leaves the caller's settings alone
RepeatSame == n = 2 => out1 = out2
SettingsKept == [][obj'.fclass = obj.fclass /\ obj'.fsub = obj.fsub /\ obj'.ftid = obj.ftid /\ obj'.fproc = obj.fproc]_vars
\* C12: event filter = exact subsequence (stated independently of SelectSeq: by index sets)
KeventsExact ==
  LET got == ReqKevents(obj, dump).out
      want == {i \in 1..Len(dump.evs) : EvSat(obj.ftid, obj.fclass, obj.fsub, dump.evs[i])}
  IN /\ Len(got) = Cardinality(want)
     /\ \A j \in 1..Len(got) : got[j].k \in want
     /\ \A j \in 1..(Len(got) - 1) : got[j].k < got[j + 1].k
\* C13: repeating a callstack request gives the same callstacks (no image residue)
CallstacksRepeatSame ==
  LET r1 == ReqCallstacks(obj, dump)
      r2 == ReqCallstacks(r1.obj, dump)
  IN r1.out = r2.out

\* helper classes are consumed but never reported unless requested themselves
HelpersNotReported ==
  \A i \in 1..Len(MechTraces(obj, dump)) :
     LET e1 == EvByK(dump, MechTraces(obj, dump)[i].first) IN
     HasLists(obj.fclass, obj.fsub) => (e1.cc \in Range(obj.fclass) \/ e1.sc \in Range(obj.fsub))
=============================================================================
