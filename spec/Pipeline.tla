------------------------------ MODULE Pipeline -------------------------------
(***************************************************************************************************)
(* The PyKdebugParser object (pykdebugparser/pykdebugparser.py) as a request/response machine:      *)
(*   object state  obj = [ftid, fproc, fclass, fsub (the caller's filter settings),                 *)
(*                        tpid, pname (tables shared by all requests), img (callstack image table)] *)
(*   requests      kevents / traces / callstacks over a dump (thread map + Seq of events)           *)
(* composed from the stage specifications: thread map (as Container!SetThreadMap), event filter,    *)
(* Pairing!Step (decode), trace filters, Callstacks!CsStep.  The MECHANISM is written as the code   *)
(* is (pre-filter with an effective class list = caller's list + helper classes, decode, post-      *)
(* filters); the REFERENCE is the property: the unfiltered run restricted to what satisfies the     *)
(* filter.  Used for C12, C13, C14 (process column), C19 (table indirection is in the event's cls). *)
(*                                                                                                 *)
(* Events are Pairing events extended with cc (class = top byte of the id) and sc (top 16 bits).    *)
(* Variants (negative controls, CONSTANT PVariant):                                                 *)
(*   "ok"          helper classes kept in a LOCAL list; image table cleared per callstack request   *)
(*   "mutates"     helper classes appended to the caller's list (pinned tree)                       *)
(*   "imgresidue"  image table survives between callstack requests (pinned tree)                    *)
(*   "noperfhelper" class PERF not consumed as helper class under a class filter (pinned tree)      *)
(*   "tidprefilter" thread filter applied to EVENTS before decoding (pinned tree): records of other *)
(*                 threads that write shared tables (the parent's new-thread record!) are lost      *)
(***************************************************************************************************)
EXTENDS Pairing

CONSTANT PVariant

CS == INSTANCE Callstacks

DBG_TRACE == 7   DBG_FSYSTEM == 3   DBG_BSD == 4   DBG_PERF == 37

\* Range(f) comes from Functions (via Pairing)
NoneTid == 0
NoProc == [kind |-> "none"]

\* ---- thread map (set_thread_map: clear, fill, later entry wins) ---------------------------------
RECURSIVE FillMap(_, _, _, _)
FillMap(tmap, i, tpid, pname) ==
  IF i > Len(tmap) THEN [tpid |-> tpid, pname |-> pname]
  ELSE FillMap(tmap, i + 1, Put(tpid, tmap[i].tid, tmap[i].pid), Put(pname, tmap[i].pid, tmap[i].name))
MapTables(tmap) == FillMap(tmap, 1, EmptyFn, EmptyFn)

\* ---- C12: event filter ----------------------------------------------------------------------------
HasLists(cls, sub) == Len(cls) > 0 \/ Len(sub) > 0
EvSat(ftid, cls, sub, e) ==
  /\ (ftid = NoneTid \/ e.tid = ftid)
  /\ (~HasLists(cls, sub) \/ e.cc \in Range(cls) \/ e.sc \in Range(sub))

ReqKevents(obj, dump) ==
  [obj |-> [obj EXCEPT !.tpid = MapTables(dump.tmap).tpid, !.pname = MapTables(dump.tmap).pname],
   out |-> SelectSeq(dump.evs, LAMBDA e : EvSat(obj.ftid, obj.fclass, obj.fsub, e))]

\* ---- C12: log listing (os_log_events): thread and process filters, exact subsequence -------------
\* a log is [i, tid, pid, proc]; the process filter matches the process name or the pid as a string
LogSat(obj, l) ==
  /\ (obj.ftid = NoneTid \/ l.tid = obj.ftid)
  /\ \/ obj.fproc.kind = "none"
     \/ obj.fproc.kind = "pid" /\ l.pid = obj.fproc.pid
     \/ obj.fproc.kind = "name" /\ l.proc = obj.fproc.name
     \* the filter is ONE string compared with the pid (as decimal text) and with the process name: a string of digits
     \* selects the process with that pid AND the process with that name
     \/ obj.fproc.kind = "both" /\ (l.pid = obj.fproc.pid \/ l.proc = obj.fproc.name)
ReqLogs(obj, dump) == SelectSeq(dump.logs, LAMBDA l : LogSat(obj, l))

\* ---- decode: fold Pairing!Step, remembering the tables as they are when each trace comes out ------
RECURSIVE DecodeFrom(_, _, _)
DecodeFrom(s, evs, i) ==
  IF i > Len(evs) THEN <<>>
  ELSE LET r == Step(s, evs[i]) IN
       (IF r.out.emit THEN <<[k |-> evs[i].k, out |-> r.out, tpid |-> r.s.tpid, pname |-> r.s.pname,
                              first |-> r.out.win[1]]>> ELSE <<>>)
       \o DecodeFrom(r.s, evs, i + 1)
Decode(tables, evs) == DecodeFrom([InitState EXCEPT !.tpid = tables.tpid, !.pname = tables.pname], evs, 1)

RECURSIVE FinalState(_, _, _)
FinalState(s, evs, i) == IF i > Len(evs) THEN s ELSE FinalState(Step(s, evs[i]).s, evs, i + 1)

EvByK(dump, k) == dump.evs[CHOOSE i \in 1..Len(dump.evs) : dump.evs[i].k = k]

\* _filter_process_callback: by pid string or by process name, tables as of emission
ProcSat(fproc, tr, tid) ==
  \/ fproc.kind = "none"
  \/ /\ fproc.kind = "pid"  /\ Get(tr.tpid, tid, -1) = fproc.pid
  \/ /\ fproc.kind = "name" /\ Get(tr.pname, Get(tr.tpid, tid, -1), "") = fproc.name
  \/ /\ fproc.kind = "both" /\ (Get(tr.tpid, tid, -1) = fproc.pid \/ Get(tr.pname, Get(tr.tpid, tid, -1), "") = fproc.name)

\* ---- C13: the mechanism, as the code is written -------------------------------------------------
AddTrace(obj) == HasLists(obj.fclass, obj.fsub) /\ DBG_TRACE \notin Range(obj.fclass)
ClassPlusTrace(obj) == IF AddTrace(obj) THEN Append(obj.fclass, DBG_TRACE) ELSE obj.fclass
HasBsd(obj) == DBG_BSD \in Range(ClassPlusTrace(obj)) \/ \E i \in 1..Len(obj.fsub) : obj.fsub[i] \div 256 = DBG_BSD
AddFs(obj) == HasLists(obj.fclass, obj.fsub) /\ HasBsd(obj) /\ DBG_FSYSTEM \notin Range(ClassPlusTrace(obj))
ClassPlusFs(obj) == IF AddFs(obj) THEN Append(ClassPlusTrace(obj), DBG_FSYSTEM) ELSE ClassPlusTrace(obj)
\* sampler thread-info records (class PERF) write the thread -> process table that the process filter reads
AddPerf(obj) == PVariant # "noperfhelper" /\ HasLists(obj.fclass, obj.fsub) /\ DBG_PERF \notin Range(obj.fclass)
EffClass(obj) == IF AddPerf(obj) THEN Append(ClassPlusFs(obj), DBG_PERF) ELSE ClassPlusFs(obj)

PreTid(obj) == IF PVariant = "tidprefilter" THEN obj.ftid ELSE NoneTid
PreEvents(obj, dump) == SelectSeq(dump.evs, LAMBDA e : EvSat(PreTid(obj), EffClass(obj), obj.fsub, e))

MechTraces(obj, dump) ==
  LET tabs == MapTables(dump.tmap)
      pre  == PreEvents(obj, dump)
      trs  == Decode(tabs, pre)
  IN SelectSeq(trs, LAMBDA tr :
        LET e1 == EvByK(dump, tr.first) IN
        /\ (obj.ftid = NoneTid \/ e1.tid = obj.ftid)            \* thread filter on TRACES, after decoding
        /\ ProcSat(obj.fproc, tr, e1.tid)
        /\ ~(AddTrace(obj) /\ e1.cc = DBG_TRACE)
        /\ ~(AddFs(obj) /\ e1.cc = DBG_FSYSTEM)
        /\ ~(AddPerf(obj) /\ e1.cc = DBG_PERF))

\* ---- C13: the reference = the property -----------------------------------------------------------
RefTraces(obj, dump) ==
  LET trs == Decode(MapTables(dump.tmap), dump.evs)          \* the unfiltered run
  IN SelectSeq(trs, LAMBDA tr :
        LET e1 == EvByK(dump, tr.first) IN
        /\ (obj.ftid = NoneTid \/ e1.tid = obj.ftid)
        /\ ProcSat(obj.fproc, tr, e1.tid)
        /\ (~HasLists(obj.fclass, obj.fsub) \/ e1.cc \in Range(obj.fclass) \/ e1.sc \in Range(obj.fsub)))

\* identity of a reported trace: the event that completed it and its first event (the statement compares the
\* traces and their text, not the helper records inside their windows)
Keys(trs) == [i \in 1..Len(trs) |-> <<trs[i].k, trs[i].first>>]

TablesAfter(obj, dump, pre) ==
  LET tabs == MapTables(dump.tmap)
      fin  == FinalState([InitState EXCEPT !.tpid = tabs.tpid, !.pname = tabs.pname], pre, 1)
  IN [tpid |-> fin.tpid, pname |-> fin.pname]

ReqTraces(obj, dump) ==
  LET pre == PreEvents(obj, dump)
      t   == TablesAfter(obj, dump, pre)
  IN [obj |-> [obj EXCEPT !.tpid = t.tpid, !.pname = t.pname,
                          !.fclass = IF PVariant = "mutates" THEN EffClass(obj) ELSE @],
      out |-> MechTraces(obj, dump)]

\* ---- callstacks request ---------------------------------------------------------------------------
RECURSIVE CsFold(_, _, _)
CsFold(img, trs, i) ==
  IF i > Len(trs) THEN [img |-> img, out |-> <<>>]
  ELSE LET c == CS!CsStep(img, trs[i].out)
           rest == CsFold(c.img, trs, i + 1)
       IN [img |-> rest.img, out |-> (IF c.cs.emit THEN <<[k |-> trs[i].k, cs |-> c.cs]>> ELSE <<>>) \o rest.out]

ReqCallstacks(obj, dump) ==
  LET tr == ReqTraces(obj, dump)
      c  == CsFold(IF PVariant = "imgresidue" THEN obj.img ELSE <<>>, tr.out, 1)
  IN [obj |-> [tr.obj EXCEPT !.img = c.img], out |-> c.out]

\* ---- C14: process column --------------------------------------------------------------------------
\* _format_process: the process the tables name for the thread, else "unknown"
ProcCol(tpid, pname, tid) ==
  IF tid \in DOMAIN tpid THEN [known |-> TRUE, pid |-> tpid[tid], name |-> Get(pname, tpid[tid], "")]
  ELSE [known |-> FALSE, pid |-> -1, name |-> ""]

InitObj == [ftid |-> NoneTid, fproc |-> NoProc, fclass |-> <<>>, fsub |-> <<>>,
            tpid |-> EmptyFn, pname |-> EmptyFn, img |-> <<>>]
=============================================================================
