------------------------------ MODULE CodeTable ------------------------------
(* C19 - the code-table text (pykdebugparser/trace_codes.py: from_trace_codes_text).                *)
(* A line is [id |-> Seq(Char), name |-> STRING, rest |-> BOOLEAN]; Char is a character code.       *)
(* Ids are up to 32 bits, TLC integers are 32-bit signed: the value of an id is kept as its         *)
(* canonical digit sequence (prefix removed, leading zeros removed, digit values 0..15).            *)
EXTENDS Naturals, Sequences, FiniteSets, TLC

Zero == 48   LowerX == 120   UpperX == 88
DigitVal(c) == IF c >= 48 /\ c <= 57 THEN c - 48 ELSE IF c >= 97 /\ c <= 102 THEN c - 87 ELSE c - 55   \* 0-9 a-f A-F
HasPrefix(tok) == Len(tok) >= 2 /\ tok[1] = Zero /\ tok[2] \in {LowerX, UpperX}
Digits(tok) == LET body == IF HasPrefix(tok) THEN SubSeq(tok, 3, Len(tok)) ELSE tok
               IN [i \in 1..Len(body) |-> DigitVal(body[i])]
RECURSIVE StripZeros(_)
StripZeros(ds) == IF Len(ds) > 1 /\ ds[1] = 0 THEN StripZeros(Tail(ds)) ELSE ds
Canon(tok) == StripZeros(Digits(tok))

Put(f, k, v) == [x \in DOMAIN f \cup {k} |-> IF x = k THEN v ELSE f[x]]

\* mechanism: one dictionary assignment per line, in order (a later line for the same id overwrites)
RECURSIVE FromLines(_, _, _)
FromLines(lines, i, m) == IF i > Len(lines) THEN m ELSE FromLines(lines, i + 1, Put(m, Canon(lines[i].id), lines[i].name))
FromText(lines) == FromLines(lines, 1, <<>>)

\* property: exactly the pairs (value, name), the last occurrence winning, nothing else
Exactly(lines, m) ==
  /\ DOMAIN m = {Canon(lines[i].id) : i \in 1..Len(lines)}
  /\ \A i \in 1..Len(lines) :
        (\A j \in (i + 1)..Len(lines) : Canon(lines[j].id) # Canon(lines[i].id)) => m[Canon(lines[i].id)] = lines[i].name
=============================================================================
