------------------------------- MODULE Flags_MC --------------------------------
(* M |= P for C11: for every family, every subset of the declared bits (families with more than     *)
(* MaxExh declared bits: every subset of size <= 2 and every complement of such) x {no, one}        *)
(* undeclared bit x every value of the multi-bit field, the mechanism's names satisfy FlagVerdict;  *)
(* every ioctl direction x length class x group x number satisfies IocVerdict.                      *)
EXTENDS Flags
CONSTANTS Variant, MaskVariant, MaxExh

Small(S) == {T \in SUBSET S : Cardinality(T) <= 2}
WordsOf(f) ==
  LET B == DeclaredBits(f)
      base == IF Cardinality(B) <= MaxExh THEN SUBSET B ELSE Small(B) \cup {B \ T : T \in Small(B)}
      undecl == CHOOSE b \in 0..31 : b \notin B
  IN base \cup {w \cup {undecl} : w \in base}

VARIABLES mode, fam, word, d, len, grp, num
vars == <<mode, fam, word, d, len, grp, num>>
Init == \/ /\ mode = "flags" /\ fam \in Families /\ word \in WordsOf(fam) /\ d = 0 /\ len = 0 /\ grp = 0 /\ num = 0
        \/ /\ mode = "ioctl" /\ fam = "open" /\ word = {} /\ d \in 0..7 /\ len \in {0, 1, 4, 4095, 4096, 4097, 8191}
           /\ grp \in {0, 32, 102, 255} /\ num \in {0, 1, 127, 255}
Spec == Init /\ [][UNCHANGED vars]_vars

FlagRule == mode = "flags" => FlagVerdict(fam, word, Shown(Variant, fam, word)) = "ok"
IocRule == mode = "ioctl" => IocVerdict(d, len, grp, num, IocShown(MaskVariant, d, len, grp, num)) = "ok"
=============================================================================
