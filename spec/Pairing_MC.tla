----------------------------- MODULE Pairing_MC ------------------------------
(* M |= P for C04: every event sequence over a small alphabet (2 threads x codes of every kind x   *)
(* the 4 qualifiers) up to MaxLen; the mechanism (Step) must emit exactly what the property,        *)
(* stated on the history alone (RefEmit), demands - at that moment, with that window.               *)
EXTENDS Pairing

CONSTANTS MaxLen, Tids, SwallowFragments

\* code -> class; two ordinary decodable codes, one trace-domain code, one lookup code, one known-undecoded,
\* one unknown
ClsOf == [c \in 1..6 |-> CASE c = 1 -> "SYS0" [] c = 2 -> "SYS1" [] c = 3 -> "PEXIT" [] c = 4 -> "LKP"
                            [] c = 5 -> "KNOWN" [] OTHER -> "UNK"]
CONSTANT Codes
Blank32 == [i \in 1..32 |-> IF i = 9 THEN 65 ELSE 0]
ArgOf(c) == CASE ClsOf[c] = "LKP" -> [data |-> Blank32]
              [] ClsOf[c] = "PEXIT" -> [name |-> "n"]
              [] OTHER -> [x |-> 0]

VARIABLES s, hist, out
vars == <<s, hist, out>>

Ev(k, t, c, q) == [k |-> k, tid |-> t, code |-> c, cls |-> ClsOf[c], q |-> q, a |-> ArgOf(c)]

Init == s = InitState /\ hist = <<>> /\ out = NoTrace
Next == /\ Len(hist) < MaxLen
        /\ \E t \in Tids, c \in Codes, q \in 0..3 :
             LET e == Ev(Len(hist) + 1, t, c, q)
                 r == Step(s, e)
             IN /\ s' = r.s
                /\ hist' = Append(hist, e)
                /\ out' = r.out
Spec == Init /\ [][Next]_vars

\* the swallow rule of C08 seen from C04: a NONE-qualified record of a fragment class may emit nothing
MaySwallow(e) == e.cls \in FragClasses /\ e.q = QNONE

EmitExact ==
  Len(hist) > 0 =>
    LET n == Len(hist)
        ref == RefEmit(hist, n)
    IN IF MaySwallow(hist[n]) THEN (out.emit => out.win = <<n>>)
       ELSE /\ out.emit = ref.emit
            /\ out.emit => out.win = ref.win

\* windows never contain another thread, another domain, an index outside the interval, or duplicates
WindowShape ==
  (Len(hist) > 0 /\ out.emit) =>
    LET n == Len(hist) w == out.win IN
    /\ w[Len(w)] = n
    /\ \A i \in 1..Len(w) : hist[w[i]].tid = hist[n].tid /\ Dom(hist[w[i]].cls) = Dom(hist[n].cls)
    /\ \A i \in 1..(Len(w) - 1) : w[i] < w[i + 1]
    /\ hist[n].q = QEND => (hist[w[1]].q = QSTART /\ SameKey(hist[w[1]], hist[n]))

\* an END with no open START changes nothing
StrayEndIsNoOp ==
  [][ (Len(hist') > Len(hist) /\ IsStray(hist', Len(hist'))) => (s' = s /\ ~out'.emit) ]_vars

\* open windows are exactly the open STARTs of the history (the state is a function of the history)
OpenMatchesHistory ==
  \A d \in Doms, t \in Tids, c \in Codes :
     LET isOpen == t \in DOMAIN s.open[d] /\ c \in DOMAIN s.open[d][t]
         lastSE == {j \in 1..Len(hist) : hist[j].tid = t /\ hist[j].code = c /\ hist[j].q \in {QSTART, QEND}
                                         /\ ~IsStray(hist, j)}
     IN isOpen <=> (Dom(ClsOf[c]) = d /\ lastSE # {} /\
                    hist[CHOOSE j \in lastSE : \A m \in lastSE : m <= j].q = QSTART)
=============================================================================
