----------------------------- MODULE LogDecode_Val ------------------------------
(* code -> spec for C16: raw record (abstracted) and the decoded record (projected to the same        *)
(* abstraction) ; every field present must carry the transform of its key's value, every absent       *)
(* optional field its default.                                                                        *)
EXTENDS LogDecode, Json, IOUtils
Obs == JsonDeserialize(IOEnv.OBS_FILE)
RECURSIVE Check(_, _, _)
Check(o, tab, i) ==
  IF i > Len(tab) THEN "ok"
  ELSE LET k == tab[i][1] f == tab[i][2] kind == tab[i][3] IN
       IF k \in DOMAIN o.raw
       THEN (IF f \notin DOMAIN o.dec THEN "field-missing:" \o f
             ELSE IF o.dec[f] # Xf(kind, o.raw[k]) THEN "field-value:" \o f ELSE Check(o, tab, i + 1))
       ELSE (IF f \in DOMAIN o.dec /\ o.dec[f] # (IF kind = "str" THEN o.empty ELSE DefaultOf(kind))
             THEN "absent-field-not-default:" \o f ELSE Check(o, tab, i + 1))
Verdict(o) == IF "err" \in DOMAIN o THEN "raised:" \o o.err
              ELSE LET m == Check(o, Mandatory, 1) IN IF m # "ok" THEN m ELSE Check(o, Optional, 1)
ASSUME PrintT(<<"VAL", Len(Obs)>>)
ASSUME \A i \in 1..Len(Obs) : LET v == Verdict(Obs[i]) IN v = "ok" \/ PrintT(<<"REJ", Obs[i].id, v>>)
VARIABLE dummy
Spec == dummy = 0 /\ [][UNCHANGED dummy]_dummy
=============================================================================
