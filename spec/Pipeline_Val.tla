----------------------------- MODULE Pipeline_Val -----------------------------
(* code -> spec for the PyKdebugParser object: one observation = a history of requests on ONE        *)
(* object over one dump.  Per request: the filter settings in force, what came out, and the          *)
(* caller-visible settings afterwards.                                                               *)
(*   kevents    out = <<k ...>>                          must equal the exact subsequence (C12)      *)
(*   traces     out = <<[k, first, proc] ...>>           must equal RefTraces = the unfiltered run    *)
(*              restricted to what satisfies the filter (C13); proc = the parsed process column,     *)
(*              must equal ProcCol of the tables as of emission (C14)                                *)
(*   callstacks out = <<[k, frames] ...>>                CsFold over RefTraces, image table fresh    *)
EXTENDS Pipeline, Json, IOUtils

Obs == JsonDeserialize(IOEnv.OBS_FILE)

ObjOf(cfg) == [InitObj EXCEPT !.ftid = cfg.ftid, !.fproc = cfg.fproc, !.fclass = cfg.fclass, !.fsub = cfg.fsub]

ProcOK(g, tr, tid) ==
  LET p == ProcCol(tr.tpid, tr.pname, tid) IN
  IF ~g.shown THEN TRUE
  ELSE IF p.known THEN g.known /\ g.pid = p.pid /\ g.name = p.name
  ELSE ~g.known

ReqVerdict(o, r) ==
  LET obj == ObjOf(r.cfg)
      d == IF "dump" \in DOMAIN r THEN r.dump ELSE o.dump      \* a later request may be about ANOTHER dump (no residue of the first)
  IN IF "err" \in DOMAIN r THEN "raised"
     ELSE IF r.after # r.cfg THEN "settings-changed"
     ELSE IF r.op = "kevents" THEN
        LET exp == ReqKevents(obj, d).out IN
        IF Len(r.out) < Len(exp) THEN "kevents-missing"
        ELSE IF Len(r.out) > Len(exp) THEN "kevents-extra"
        ELSE IF \E i \in 1..Len(exp) : r.out[i] # exp[i].k THEN "kevents-order-or-content"
        ELSE "ok"
     ELSE IF r.op = "traces" THEN
        LET exp == RefTraces(obj, d) IN
        IF Len(r.out) < Len(exp) THEN "traces-missing"
        ELSE IF Len(r.out) > Len(exp) THEN "traces-extra"
        ELSE IF \E i \in 1..Len(exp) : r.out[i].k # exp[i].k \/ r.out[i].first # exp[i].first THEN "traces-selection-or-order"
        ELSE IF \E i \in 1..Len(exp) : ~ProcOK(r.out[i].proc, exp[i], EvByK(d, exp[i].first).tid) THEN "process-column"
        ELSE "ok"
     ELSE IF r.op = "callstacks" THEN
        LET exp == CsFold(<<>>, RefTraces(obj, d), 1).out IN
        IF Len(r.out) # Len(exp) THEN "callstacks-count"
        ELSE IF \E i \in 1..Len(exp) : r.out[i].start # exp[i].cs.start THEN "callstacks-selection"
        ELSE IF \E i \in 1..Len(exp) :
                  \/ Len(r.out[i].frames) # Len(exp[i].cs.frames)
                  \/ \E j \in 1..Len(exp[i].cs.frames) :
                        \/ r.out[i].frames[j][1] # exp[i].cs.frames[j].x
                        \/ r.out[i].frames[j][2] # exp[i].cs.frames[j].id
                        \/ r.out[i].frames[j][3] # exp[i].cs.frames[j].off
             THEN "callstacks-attribution"
        ELSE "ok"
     ELSE IF r.op = "logs" THEN
        LET exp == ReqLogs(obj, d) IN
        IF Len(r.out) < Len(exp) THEN "logs-missing"
        ELSE IF Len(r.out) > Len(exp) THEN "logs-extra"
        ELSE IF \E i \in 1..Len(exp) : r.out[i] # exp[i].i THEN "logs-order-or-content"
        ELSE "ok"
     ELSE "unknown-op"

RECURSIVE Fold(_, _)
Fold(o, i) ==
  IF i > Len(o.reqs) THEN "ok"
  ELSE LET v == ReqVerdict(o, o.reqs[i]) IN IF v # "ok" THEN v \o "@" \o ToString(i) ELSE Fold(o, i + 1)

ASSUME PrintT(<<"VAL", Len(Obs)>>)
ASSUME \A i \in 1..Len(Obs) : LET v == Fold(Obs[i], 1) IN v = "ok" \/ PrintT(<<"REJ", Obs[i].id, v>>)

VARIABLE dummy
Spec == dummy = 0 /\ [][UNCHANGED dummy]_dummy
=============================================================================
