------------------------------ MODULE LogDecode --------------------------------
(***************************************************************************************************)
(* C16 - raw os_log records (pykdebugparser/os_log_event.py: OsLogEvent.from_raw_log_event,          *)
(* parse_trace_identifier, parse_decomposed).  A raw record is a function from short keys to         *)
(* values; the decoded record has one field per key.  Values are abstracted by the harness to small  *)
(* integers (string-index keys: the string id; after decoding: the id of the text found, so          *)
(* "resolved through the string index" is id = id), pairs, lists; the trace identifier to its 8      *)
(* little-endian bytes.                                                                              *)
(***************************************************************************************************)
EXTENDS Naturals, Integers, Sequences, FiniteSets, TLC

\* key -> field and kind of value
\*  "int"  scalar copied        "str"  string id resolved through the index      "enum" log type value
\*  "tz"   <<mw, dt>> renamed   "date" <<sec, usec>> -> UTC instant              "raw"  copied as is (pairs / dicts)
\*  "bt"   Seq(<<iu, io>>)      "lc"   <<c, s>>       "ti"  trace identifier     "dm"   decomposed message
Mandatory == << <<"cm", "composed_message", "str">>, <<"t", "type_", "int">>, <<"s", "size", "int">>,
                <<"tid", "thread_identifier", "int">>, <<"ns", "continuous_nanoseconds_since_boot", "int">>,
                <<"mct", "mach_continuous_timestamp", "int">>, <<"b", "boot_uuid", "int">>,
                <<"piu", "process_image_uuid", "int">>, <<"ud", "unix_date", "date">>, <<"utz", "unix_timezone", "tz">> >>
Optional == << <<"ti", "trace_identifier", "ti">>, <<"pip", "process_image_path", "str">>, <<"p", "process", "str">>,
               <<"sip", "sender_image_path", "str">>, <<"send", "sender", "str">>, <<"sio", "sender_image_offset", "int">>,
               <<"siu", "sender_image_uuid", "int">>, <<"lt", "log_type", "enum">>, <<"ttl", "time_to_live", "int">>,
               <<"pid", "process_identifier", "int">>, <<"aid", "activity_identifier", "int">>,
               <<"paid", "parent_activity_identifier", "int">>, <<"tai", "transition_activity_identifier", "int">>,
               <<"sub", "subsystem", "str">>, <<"cat", "category", "str">>, <<"f", "format_string", "str">>,
               <<"cai", "creator_activity_identifier", "int">>, <<"cpui", "creator_process_unique_identifier", "int">>,
               <<"si", "signpost_identifier", "int">>, <<"sn", "signpost_name", "str">>, <<"st", "signpost_type", "int">>,
               <<"ss", "signpost_scope", "int">>, <<"lsmct", "loss_start_mach_continuous_timestamp", "int">>,
               <<"lemct", "loss_end_mach_continuous_timestamp", "int">>, <<"lsud", "loss_start_unix_date", "raw">>,
               <<"leud", "loss_end_unix_date", "raw">>, <<"lsutz", "loss_start_unix_timezone", "tz">>,
               <<"leutz", "loss_end_unix_timezone", "tz">>, <<"bt", "backtrace", "bt">>, <<"lc", "loss_count", "lc">>,
               <<"dm", "decomposed_message", "dm">> >>
OptKeys == {Optional[i][1] : i \in 1..Len(Optional)}

\* default of an absent optional field, in the abstraction of the harness
DefaultOf(kind) == CASE kind = "int" -> 0 [] kind = "str" -> -1 [] kind = "enum" -> -1 [] kind \in {"tz", "raw", "lc", "dm"} -> <<>>
                     [] kind = "bt" -> <<>> [] kind = "ti" -> <<>> [] OTHER -> 0

\* ---- trace identifier: firehose_tracepoint_id, 8 little-endian bytes ------------------------------
\* byte 1 namespace, byte 2 type, byte 3 generic flags (bit0 has_current_aid, bits1..3 pc_style, bit4 has_unique_pid,
\* bit5 has_large_offset), byte 4 namespace specific flags, bytes 5..8 code
Namespaces == {0, 2, 3, 4, 5, 6, 7}
TypesOf(ns) == CASE ns = 2 -> {1, 2, 3} [] ns \in {3, 4} -> {0, 1, 2, 16, 17} [] ns = 5 -> {1, 2, 3, 4}
                 [] ns = 6 -> {0, 1, 2, 64, 65, 66, 128, 129, 130, 192, 193, 194} [] OTHER -> {0, 1, 7}
FlagBitsOf(ns) == CASE ns = 4 -> {1, 2, 4, 8, 16} [] ns = 3 -> {1, 2, 4, 8, 16, 128} [] OTHER -> {}
HasFlags(ns) == ns \in {3, 4}
Pack(x) == << x.ns, x.type, (IF x.aid THEN 1 ELSE 0) + 2 * x.pcs + (IF x.up THEN 16 ELSE 0) + (IF x.lo THEN 32 ELSE 0),
              x.flags, x.code[1], x.code[2], x.code[3], x.code[4] >>
Unpack(b) == [ns |-> b[1], type |-> b[2], aid |-> b[3] % 2 = 1, pcs |-> (b[3] \div 2) % 8, up |-> (b[3] \div 16) % 2 = 1,
              lo |-> (b[3] \div 32) % 2 = 1, flags |-> IF HasFlags(b[1]) THEN b[4] ELSE -1,
              code |-> <<b[5], b[6], b[7], b[8]>>]

\* ---- decomposed message ----------------------------------------------------------------------------
\* raw: <<pc, s, segs>> ; decoded: <<pc, s>> when there is no placeholder, else <<pc, s, segs>> in order
DecodeDm(d) == IF d[1] = 0 THEN <<d[1], d[2]>> ELSE d

Xf(kind, v) == CASE kind = "ti" -> Unpack(v) [] kind = "dm" -> DecodeDm(v) [] OTHER -> v
=============================================================================
