------------------------------- MODULE Pairing -------------------------------
(***************************************************************************************************)
(* The TracesParser state machine (pykdebugparser/traces_parser.py + trace_handlers)  , at the     *)
(* code's grain: one operator per qualifier action (_feed_start_event, _feed_end_event,            *)
(* _feed_single_event), one per decoder family that reads context.  Pure operators only:           *)
(*    Step(s, e) = [s |-> state', out |-> emitted trace or none, eff |-> table assignments]        *)
(* is (1) explored by TLC in the *_MC modules, (2) folded over recorded executions of the real     *)
(* code in Pairing_Val, (3) folded inside relational invariants (solo run vs interleaved run).     *)
(*                                                                                                 *)
(* An event is a record [k, tid, code, cls, q, a]:                                                 *)
(*   k    stream index (identity of the event), tid thread, code the event id (abstract number),   *)
(*   cls  the decoder class of `code` under the code table in force (see below), q qualifier 0..3  *)
(*   a    class specific arguments (small ints, short strings, or 32 data bytes for string chunks)  *)
(* Used for C04, C05, C07, C08, C20 (and as the decode stage of Pipeline.tla / Callstacks.tla).    *)
(***************************************************************************************************)
EXTENDS Naturals, Integers, Sequences, FiniteSets, TLC, SequencesExt, Functions

\* "ok" = the design the properties demand.  Negative controls (must be rejected by TLC / by validation):
\*   "nopop"      END does not close its window          (C04)
\*   "sharedslot" one parser-wide last new-thread/exec slot, as on the pinned tree before the fix (C05)
\*   "noswallow"  continuation fragments emit traces, as on the pinned tree before the fix (C08)
CONSTANT Variant

\* ----- qualifiers ---------------------------------------------------------------------------------
QNONE == 0   QSTART == 1   QEND == 2   QALL == 3
Mod(x, m) == x % m
HasS(q) == q % 2 = 1
HasE(q) == q \div 2 = 1

\* ----- decoder classes ----------------------------------------------------------------------------
\* trace-domain classes: names registered in trace_handlers/trace.py; they pair only among themselves
TrcClasses == {"NTD", "EXD", "TERM", "TPID", "GSTR", "NTS", "EXS", "PEXIT", "TNAME", "TNAMEP"}
\* classes whose NONE-qualified records are continuation fragments of a multi-record text (C08)
FragClasses == {"LKP", "GSTR", "TNAME", "TNAMEP"}
\* path-taking syscall classes (C08): how the decoder picks lookups from its window
PathClasses == {"SYS1", "SYS2", "SPAWN", "RENAMEAT", "LINKAT", "SYMLINKAT", "FSSNAP"}
\* "KNOWN": id in the code table, no decoder.  "UNK": id not in the code table.
Decodable(cls) == cls \notin {"KNOWN", "UNK"}
Dom(cls) == IF cls \in TrcClasses THEN "trc" ELSE "ord"
Doms == {"ord", "trc"}

\* ----- state --------------------------------------------------------------------------------------
\* open[d][t][c]  the window of the open START of code c on thread t in domain d (Seq of events)
\* gstr           global string table (string id -> text)        (parser.global_strings)
\* tname          thread names (tid -> text)                      (parser.tids_names)
\* tpid, pname    thread -> pid and pid -> process name           (shared dicts threads_pids / pids_names)
\* nt, ex         last new-thread / exec data record PER EMITTING THREAD (the design C05 demands)
EmptyFn == <<>>
InitState == [open |-> [d \in Doms |-> EmptyFn], gstr |-> EmptyFn, tname |-> EmptyFn,
              tpid |-> EmptyFn, pname |-> EmptyFn, nt |-> EmptyFn, ex |-> EmptyFn]

Put(f, k, v) == [x \in DOMAIN f \cup {k} |-> IF x = k THEN v ELSE f[x]]
Del(f, k) == [x \in DOMAIN f \ {k} |-> f[x]]
Get(f, k, dflt) == IF k \in DOMAIN f THEN f[k] ELSE dflt

NoTrace == [emit |-> FALSE]
Trace(cls, win, f) == [emit |-> TRUE, cls |-> cls, win |-> [i \in 1..Len(win) |-> win[i].k], f |-> f]

\* ----- text helpers -------------------------------------------------------------------------------
StripNul(bs) == SelectSeq(bs, LAMBDA b : b # 0)
Tail8(d) == SubSeq(d, 9, Len(d))
Tail16(d) == SubSeq(d, 17, Len(d))
NoText == <<>>

\* vnode_generator (traces_parser.py:59-77) over the VFS_LOOKUP records of a window, transcribed:
\* a START bit takes the vnode id from the first 8 bytes and the text from byte 9; anything else
\* contributes all 32 bytes; an END bit closes the vnode.
RECURSIVE VG(_, _, _, _, _)
VG(evs, i, path, vid, ks) ==
  IF i > Len(evs) THEN <<>>
  ELSE LET e  == evs[i]
           p1 == IF HasS(e.q) THEN path \o Tail8(e.a.data) ELSE path \o e.a.data
           v1 == IF HasS(e.q) THEN SubSeq(e.a.data, 1, 8) ELSE vid
           k1 == Append(ks, e.k)
       IN IF HasE(e.q)
          THEN <<[ks |-> k1, vid |-> v1, path |-> StripNul(p1)]>> \o VG(evs, i + 1, <<>>, <<0,0,0,0,0,0,0,0>>, <<>>)
          ELSE VG(evs, i + 1, p1, v1, k1)

LkpOf(win) == SelectSeq(win, LAMBDA e : e.cls = "LKP")
Lookups(win) == VG(LkpOf(win), 1, <<>>, <<0,0,0,0,0,0,0,0>>, <<>>)

\* a chunk sequence is well formed when it is (START NONE* END | ALL)*; otherwise the text is not pinned
RECURSIVE WF(_, _, _)
WF(evs, i, inside) ==
  IF i > Len(evs) THEN ~inside
  ELSE LET q == evs[i].q IN
       IF inside THEN (q = QNONE /\ WF(evs, i + 1, TRUE)) \/ (q = QEND /\ WF(evs, i + 1, FALSE))
       ELSE (q = QALL /\ WF(evs, i + 1, FALSE)) \/ (q = QSTART /\ WF(evs, i + 1, TRUE))
WellFormedLookups(win) == WF(LkpOf(win), 1, FALSE)

PathAt(L, i) == IF i >= 1 /\ i <= Len(L) THEN L[i].path ELSE NoText

\* which lookups a path-taking decoder shows, in order (C08): the audited case analysis of bsd.py
PathsOf(cls, win) ==
  LET L == Lookups(win) IN
  CASE cls = "SYS1" -> <<PathAt(L, 1)>>
    [] cls = "SYS2" ->   \* second path = first lookup among the events not used by the first
         LET used == IF Len(L) > 0 THEN {L[1].ks[j] : j \in 1..Len(L[1].ks)} ELSE {}
             rest == Lookups(SelectSeq(win, LAMBDA e : e.k \notin used))
         IN <<PathAt(L, 1), PathAt(rest, 1)>>
    [] cls = "SPAWN" -> IF Len(L) >= 6 THEN <<L[1].path, L[2].path, L[3].path, L[4].path>>
                        ELSE <<NoText, NoText, NoText, PathAt(L, 1)>>
    [] cls = "RENAMEAT" -> <<PathAt(L, 1), PathAt(L, 2)>>
    [] cls = "LINKAT" -> <<PathAt(L, 1), PathAt(L, 2)>>
    [] cls = "SYMLINKAT" -> <<IF Len(L) > 1 THEN L[1].path ELSE NoText, PathAt(L, Len(L))>>
    [] cls = "FSSNAP" -> <<PathAt(L, 1), PathAt(L, 2)>>

\* ----- handlers: Handle(s, win) = [emit, f, s, eff] ----------------------------------------------
Asg(tbl, k, v) == [tbl |-> tbl, k |-> k, v |-> v]
Res(emit, f, s, eff) == [emit |-> emit, f |-> f, s |-> s, eff |-> eff]

\* handle_trace_string_global (trace.py:139-158): walks ALL records of its window
RECURSIVE GS(_, _, _, _)
GS(win, i, sid, txt) ==
  IF i > Len(win) THEN [sid |-> sid, txt |-> txt]
  ELSE LET e == win[i]
           d == IF "data" \in DOMAIN e.a THEN e.a.data ELSE <<>>
           s1 == IF HasS(e.q) /\ "sid" \in DOMAIN e.a THEN e.a.sid ELSE sid
           t1 == IF HasS(e.q) THEN txt \o Tail16(d) ELSE txt \o d
       IN IF HasE(e.q) THEN [sid |-> s1, txt |-> t1] ELSE GS(win, i + 1, s1, t1)

RECURSIVE JoinData(_, _)
JoinData(win, i) == IF i > Len(win) THEN <<>>
                    ELSE (IF "data" \in DOMAIN win[i].a THEN win[i].a.data ELSE <<>>) \o JoinData(win, i + 1)

FirstOf(win, P(_)) == LET S == SelectSeq(win, P) IN IF Len(S) > 0 THEN <<S[1]>> ELSE <<>>

\* stable sort by rank of the launch image list: all map records (window order) then all shared-cache
\* records (window order), stably sorted by load address  (dyld.py:207-212)
RECURSIVE InsertSorted(_, _)
InsertSorted(sorted, x) ==
  IF Len(sorted) = 0 THEN <<x>>
  ELSE IF sorted[Len(sorted)].rank <= x.rank THEN Append(sorted, x)
  ELSE Append(InsertSorted(SubSeq(sorted, 1, Len(sorted) - 1), x), sorted[Len(sorted)])
RECURSIVE StableSort(_, _, _)
StableSort(xs, i, acc) == IF i > Len(xs) THEN acc ELSE StableSort(xs, i + 1, InsertSorted(acc, xs[i]))

RECURSIVE Flatten(_, _)
Flatten(ss, i) == IF i > Len(ss) THEN <<>> ELSE ss[i] \o Flatten(ss, i + 1)
Take(xs, n) == SubSeq(xs, 1, IF n < Len(xs) THEN n ELSE Len(xs))

NonePid == -1
NoFrames == <<-1>>

Handle(s, win) ==
  LET e0 == win[1]
      en == win[Len(win)]
      cls == e0.cls
      t == e0.tid
      slot == IF Variant = "sharedslot" THEN 0 ELSE t      \* key of the last-data-record slots
  IN
  CASE cls = "SYS0" -> Res(TRUE, [c |-> cls], s, <<>>)
    [] cls \in PathClasses -> Res(TRUE, [c |-> cls, ps |-> PathsOf(cls, win)], s, <<>>)
    [] cls = "LKP" ->
         \* a record without START bit at the head of its "window" is a continuation fragment: swallowed
         IF ~HasS(e0.q) /\ Variant # "noswallow" THEN Res(FALSE, [c |-> cls], s, <<>>)
         ELSE LET L == Lookups(win) IN
              IF Len(L) = 0 THEN Res(TRUE, [c |-> cls, path |-> NoText, vid |-> <<0,0,0,0,0,0,0,0>>], s, <<>>)
              ELSE Res(TRUE, [c |-> cls, path |-> L[1].path, vid |-> L[1].vid], s, <<>>)
    [] cls = "GSTR" ->
         IF ~HasS(e0.q) /\ Variant # "noswallow" THEN Res(FALSE, [c |-> cls], s, <<>>)
         ELSE LET g == GS(SelectSeq(win, LAMBDA e : e.code = e0.code), 1, 0, <<>>)      \* the string's own records only
                  txt == StripNul(g.txt)
              IN Res(TRUE, [c |-> cls, sid |-> g.sid, text |-> txt],
                     IF Len(txt) > 0 THEN [s EXCEPT !.gstr = Put(s.gstr, g.sid, txt)] ELSE s,
                     IF Len(txt) > 0 THEN <<Asg("gstr", g.sid, txt)>> ELSE <<>>)
    [] cls \in {"TNAME", "TNAMEP"} ->
         IF ~HasS(e0.q) /\ Variant # "noswallow" THEN Res(FALSE, [c |-> cls], s, <<>>)
         ELSE LET nm == StripNul(JoinData(SelectSeq(win, LAMBDA e : e.code = e0.code), 1)) IN     \* other records may lie between the chunks
              Res(TRUE, [c |-> cls, name |-> nm], [s EXCEPT !.tname = Put(s.tname, t, nm)], <<Asg("tname", t, nm)>>)
    [] cls = "NTD" ->
         Res(TRUE, [c |-> cls, ntid |-> e0.a.ntid, pid |-> e0.a.pid],
             [s EXCEPT !.tpid = Put(s.tpid, e0.a.ntid, e0.a.pid), !.nt = Put(s.nt, slot, e0.a.pid)],
             <<Asg("tpid", e0.a.ntid, e0.a.pid)>>)
    [] cls = "NTS" ->
         IF slot \in DOMAIN s.nt
         THEN Res(TRUE, [c |-> cls, name |-> e0.a.name], [s EXCEPT !.pname = Put(s.pname, s.nt[slot], e0.a.name)],
                  <<Asg("pname", s.nt[slot], e0.a.name)>>)
         ELSE Res(TRUE, [c |-> cls, name |-> e0.a.name], s, <<>>)      \* no data record seen: nothing learned (C07)
    [] cls = "EXD" -> Res(TRUE, [c |-> cls, pid |-> e0.a.pid], [s EXCEPT !.ex = Put(s.ex, slot, e0.a.pid)], <<>>)
    [] cls = "EXS" ->
         IF slot \in DOMAIN s.ex
         THEN Res(TRUE, [c |-> cls, name |-> e0.a.name], [s EXCEPT !.pname = Put(s.pname, s.ex[slot], e0.a.name)],
                  <<Asg("pname", s.ex[slot], e0.a.name)>>)
         ELSE Res(TRUE, [c |-> cls, name |-> e0.a.name], s, <<>>)
    [] cls = "PEXIT" -> Res(TRUE, [c |-> cls, name |-> e0.a.name], s, <<>>)
    [] cls = "TERM" ->   \* reads tables written by other threads (masked in C05)
         Res(TRUE, [c |-> cls, ttid |-> e0.a.ttid, pid |-> Get(s.tpid, e0.a.ttid, NonePid),
                    name |-> Get(s.tname, e0.a.ttid, NoText)], s, <<>>)
    [] cls = "TPID" -> Res(TRUE, [c |-> cls, pid |-> e0.a.pid], [s EXCEPT !.tpid = Put(s.tpid, t, e0.a.pid)],
                           <<Asg("tpid", t, e0.a.pid)>>)
    [] cls = "USESTR" ->  \* dyld decoders dereferencing a global string id; unknown / zero id => empty text
         Res(TRUE, [c |-> cls, text |-> Get(s.gstr, e0.a.sid, NoText)], s, <<>>)
    [] cls = "RFA" -> Res(TRUE, [c |-> cls, pid |-> e0.a.pid, prot |-> e0.a.prot], s, <<>>)
    [] cls = "RFAU" -> Res(FALSE, [c |-> cls], s, <<>>)   \* real-fault record of a kind the tool does not decode
    [] cls = "VMF" ->   \* mach.py:1194-1209 ; result and type from END, pid/prot from the first nested RFA*
         LET inner == SubSeq(win, 2, Len(win) - 1)
             real  == SelectSeq(inner, LAMBDA e : e.cls \in {"RFA", "RFAU"})
             res   == en.a.result
             useIt == res = 0 /\ Len(real) > 0 /\ real[1].cls = "RFA"
         IN Res(TRUE, [c |-> cls, result |-> res,
                       ftype |-> IF res = 0 THEN en.a.ftype ELSE -1,
                       pid |-> IF useIt THEN real[1].a.pid ELSE NonePid,
                       prot |-> IF useIt THEN real[1].a.prot ELSE -1,
                       undecodedFirst |-> (res = 0 /\ Len(real) > 0 /\ real[1].cls = "RFAU")], s, <<>>)
    [] cls \in {"MAPA", "SCA"} -> Res(TRUE, [c |-> cls, rank |-> e0.a.rank, id |-> e0.a.id], s, <<>>)
    [] cls = "LAUNCH" ->
         LET ma == SelectSeq(win, LAMBDA e : e.cls = "MAPA")
             sc == SelectSeq(win, LAMBDA e : e.cls = "SCA")
             all == [i \in 1..(Len(ma) + Len(sc)) |->
                       IF i <= Len(ma) THEN [rank |-> ma[i].a.rank, id |-> ma[i].a.id, kind |-> "MAPA"]
                       ELSE [rank |-> sc[i - Len(ma)].a.rank, id |-> sc[i - Len(ma)].a.id, kind |-> "SCA"]]
         IN Res(TRUE, [c |-> cls, imgs |-> StableSort(all, 1, <<>>)], s, <<>>)
    [] cls = "THD" -> Res(TRUE, [c |-> cls, pid |-> e0.a.pid, ttid |-> e0.a.ttid],
                          [s EXCEPT !.tpid = Put(s.tpid, e0.a.ttid, e0.a.pid)], <<Asg("tpid", e0.a.ttid, e0.a.pid)>>)
    [] cls = "UHDR" -> Res(TRUE, [c |-> cls, n |-> e0.a.n], s, <<>>)
    [] cls = "UDATA" -> Res(TRUE, [c |-> cls, frames |-> e0.a.frames], s, <<>>)
    [] cls = "PERF" ->  \* perf.py:140-156 ; flags: bit TH_INFO (ti), bit USTACK (us)
         LET thd == SelectSeq(win, LAMBDA e : e.cls = "THD")
             hdr == SelectSeq(win, LAMBDA e : e.cls = "UHDR")
             dat == SelectSeq(win, LAMBDA e : e.cls = "UDATA")
             hasTi == e0.a.ti /\ Len(thd) > 0
             hasUs == e0.a.us /\ Len(hdr) > 0
             frames == Take(Flatten([i \in 1..Len(dat) |-> dat[i].a.frames], 1), hdr[1].a.n)
         IN Res(TRUE, [c |-> cls, thi |-> IF hasTi THEN thd[1].a.pid ELSE NonePid,
                       frames |-> IF hasUs THEN frames ELSE NoFrames],
                IF hasTi THEN [s EXCEPT !.tpid = Put(s.tpid, thd[1].a.ttid, thd[1].a.pid)] ELSE s,
                IF hasTi THEN <<Asg("tpid", thd[1].a.ttid, thd[1].a.pid)>> ELSE <<>>)

\* parse_event_list (traces_parser.py:51-57): undecodable first event => no trace, no effect
Parse(s, win) ==
  IF ~Decodable(win[1].cls) THEN [s |-> s, out |-> NoTrace, eff |-> <<>>]
  ELSE LET h == Handle(s, win) IN
       [s |-> h.s, out |-> IF h.emit THEN Trace(win[1].cls, win, h.f) ELSE NoTrace, eff |-> h.eff]

\* ----- the three qualifier actions ---------------------------------------------------------------
WinsOf(s, d, t) == Get(s.open[d], t, EmptyFn)
SetWins(s, d, t, w) ==
  [s EXCEPT !.open[d] = IF DOMAIN w = {} THEN Del(s.open[d], t) ELSE Put(s.open[d], t, w)]

FeedStart(s, e) ==     \* _feed_start_event: (re)open the window, the START joins every open window
  LET d == Dom(e.cls)
      w0 == WinsOf(s, d, e.tid)
      w1 == [c \in DOMAIN w0 \cup {e.code} |-> IF c = e.code THEN <<e>> ELSE Append(w0[c], e)]
  IN [s |-> SetWins(s, d, e.tid, w1), out |-> NoTrace, eff |-> <<>>]

FeedEnd(s, e) ==       \* _feed_end_event: stray END = no-op; else join, pop, decode
  LET d == Dom(e.cls)
      w0 == WinsOf(s, d, e.tid)
  IN IF e.code \notin DOMAIN w0 THEN [s |-> s, out |-> NoTrace, eff |-> <<>>]
     ELSE LET win == Append(w0[e.code], e)
              w1 == [c \in (IF Variant = "nopop" THEN DOMAIN w0 ELSE DOMAIN w0 \ {e.code}) |-> Append(w0[c], e)]
          IN Parse(SetWins(s, d, e.tid, w1), win)

FeedSingle(s, e) ==    \* _feed_single_event: join every open window, decode alone
  LET d == Dom(e.cls)
      w0 == WinsOf(s, d, e.tid)
      w1 == [c \in DOMAIN w0 |-> Append(w0[c], e)]
  IN Parse(SetWins(s, d, e.tid, w1), <<e>>)

Step(s, e) ==
  CASE e.q = QSTART -> FeedStart(s, e)
    [] e.q = QEND -> FeedEnd(s, e)
    [] OTHER -> FeedSingle(s, e)

RECURSIVE Run(_, _, _)
Run(s, evs, i) == IF i > Len(evs) THEN s ELSE Run(Step(s, evs[i]).s, evs, i + 1)

\* ----- the property side (C04), stated on the history alone ---------------------------------------
SameKey(a, b) == a.tid = b.tid /\ a.code = b.code
\* index of the open START for the END at h[n], or 0
OpenStart(h, n) ==
  LET C == {j \in 1..(n - 1) : h[j].q = QSTART /\ SameKey(h[j], h[n])
                              /\ \A m \in (j + 1)..(n - 1) : ~(SameKey(h[m], h[n]) /\ h[m].q \in {QSTART, QEND})}
  IN IF C = {} THEN 0 ELSE CHOOSE j \in C : TRUE
IsStray(h, i) == h[i].q = QEND /\ OpenStart(h, i) = 0
\* the window the property demands (stray ENDs left out; the statement allows them either way)
RefWindow(h, n) ==
  LET j == OpenStart(h, n)
      idx == [i \in 1..(n - j + 1) |-> j + i - 1]
  IN SelectSeq(idx, LAMBDA i : h[i].tid = h[n].tid /\ Dom(h[i].cls) = Dom(h[n].cls) /\ ~IsStray(h, i))
\* what must be emitted after feeding h[n]
RefEmit(h, n) ==
  LET e == h[n] IN
  CASE e.q = QSTART -> [emit |-> FALSE]
    [] e.q = QEND -> IF OpenStart(h, n) # 0 /\ Decodable(h[OpenStart(h, n)].cls)
                       THEN [emit |-> TRUE, win |-> RefWindow(h, n)] ELSE [emit |-> FALSE]
    [] OTHER -> IF Decodable(e.cls) THEN [emit |-> TRUE, win |-> <<n>>] ELSE [emit |-> FALSE]

=============================================================================
