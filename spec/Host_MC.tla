------------------------------- MODULE Host_MC --------------------------------
(* M |= P for C18: the rendering functions take NO host parameter (HostIndexedTables = FALSE, the    *)
(* repaired design): for every pair of hosts and every error number / signal / socket type the       *)
(* rendered name is identical and is Darwin's.  Negative control: HostIndexedTables = TRUE (pinned   *)
(* tree: names come from the interpreter's own errno / signal / socket modules).                     *)
EXTENDS DarwinTables, FiniteSets, TLC
CONSTANTS HostIndexedTables, Hosts
ErrName(host, n) == IF HostIndexedTables /\ host = "linux" THEN LinuxErrno(n) ELSE Errno[n]
VARIABLES h1, h2, n
vars == <<h1, h2, n>>
Init == h1 \in Hosts /\ h2 \in Hosts /\ n \in 1..106
Spec == Init /\ [][UNCHANGED vars]_vars
HostIndependent == ErrName(h1, n) = ErrName(h2, n)
NamesAreDarwins == ErrName(h1, n) \in ErrnoAlias[n]
TablesWellFormed == /\ Len(Errno) = 106 /\ Len(Signal) = 31 /\ Len(SockType) = 5
                    /\ Cardinality({Errno[i] : i \in 1..106}) = 106 /\ Cardinality({Signal[i] : i \in 1..31}) = 31
=============================================================================
