-------------------------------- MODULE Flags ---------------------------------
(***************************************************************************************************)
(* C11 - flag words and packed fields.  A word is the SET of its set bit positions (TLC integers    *)
(* are 32-bit signed; MSG_USEUPCALL is bit 31).  Per family the frozen Darwin table:                *)
(*   single : names of single bits        field : one multi-bit field (mask, value -> name)          *)
(*   zero   : names whose value is 0 (shown for "nothing set"; never constrained by the property)     *)
(* Tables transcribed from XNU headers (fcntl.h, stat.h, unistd.h, socket.h, vm_prot.h, ast.h,       *)
(* kperf, dlfcn.h) = the values the tool's enums carry today.                                       *)
(***************************************************************************************************)
EXTENDS Naturals, FiniteSets, Sequences, TLC

NoField == [mask |-> {}, vals |-> {}]
Families == {"open", "mode", "access", "msg", "flock", "chflags", "vmprot", "ast", "thstate", "sampler",
             "kperfti", "callstack", "rtld"}
Fam(f) ==
  CASE f = "open" -> [single |-> {<<"O_NONBLOCK", 2>>, <<"O_APPEND", 3>>, <<"O_SHLOCK", 4>>, <<"O_EXLOCK", 5>>, <<"O_ASYNC", 6>>, <<"O_NOFOLLOW", 8>>, <<"O_CREAT", 9>>, <<"O_TRUNC", 10>>, <<"O_EXCL", 11>>, <<"O_EVTONLY", 15>>, <<"O_SYMLINK", 21>>, <<"O_CLOEXEC", 24>>},
                    field |-> [mask |-> {0, 1}, vals |-> {<<{}, "O_RDONLY">>, <<{0}, "O_WRONLY">>, <<{1}, "O_RDWR">>}], zero |-> {"O_RDONLY"}]
    [] f = "mode" -> [single |-> {<<"S_IXOTH", 0>>, <<"S_IWOTH", 1>>, <<"S_IROTH", 2>>, <<"S_IXGRP", 3>>, <<"S_IWGRP", 4>>, <<"S_IRGRP", 5>>, <<"S_IXUSR", 6>>, <<"S_IWUSR", 7>>, <<"S_IRUSR", 8>>, <<"S_ISTXT", 9>>, <<"S_ISGID", 10>>, <<"S_ISUID", 11>>},
                    field |-> [mask |-> {12, 13, 14, 15}, vals |-> {<<{12}, "S_IFIFO">>, <<{13}, "S_IFCHR">>, <<{14}, "S_IFDIR">>, <<{13, 14}, "S_IFBLK">>, <<{15}, "S_IFREG">>, <<{13, 15}, "S_IFLNK">>, <<{14, 15}, "S_IFSOCK">>}], zero |-> {}]
    [] f = "access" -> [single |-> {<<"X_OK", 0>>, <<"W_OK", 1>>, <<"R_OK", 2>>},
                    field |-> NoField, zero |-> {"F_OK"}]
    [] f = "msg" -> [single |-> {<<"MSG_OOB", 0>>, <<"MSG_PEEK", 1>>, <<"MSG_DONTROUTE", 2>>, <<"MSG_EOR", 3>>, <<"MSG_TRUNC", 4>>, <<"MSG_CTRUNC", 5>>, <<"MSG_WAITALL", 6>>, <<"MSG_DONTWAIT", 7>>, <<"MSG_EOF", 8>>, <<"MSG_WAITSTREAM", 9>>, <<"MSG_FLUSH", 10>>, <<"MSG_HOLD", 11>>, <<"MSG_SEND", 12>>, <<"MSG_HAVEMORE", 13>>, <<"MSG_RCVMORE", 14>>, <<"MSG_COMPAT", 15>>, <<"MSG_NEEDSA", 16>>, <<"MSG_NBIO", 17>>, <<"MSG_SKIPCFIL", 18>>, <<"MSG_USEUPCALL", 31>>},
                    field |-> NoField, zero |-> {}]
    [] f = "flock" -> [single |-> {<<"LOCK_SH", 0>>, <<"LOCK_EX", 1>>, <<"LOCK_NB", 2>>, <<"LOCK_UN", 3>>},
                    field |-> NoField, zero |-> {}]
    [] f = "chflags" -> [single |-> {<<"UF_NODUMP", 0>>, <<"UF_IMMUTABLE", 1>>, <<"UF_APPEND", 2>>, <<"UF_OPAQUE", 3>>, <<"UF_HIDDEN", 15>>, <<"SF_ARCHIVED", 16>>, <<"SF_IMMUTABLE", 17>>, <<"SF_APPEND", 18>>},
                    field |-> NoField, zero |-> {}]
    [] f = "vmprot" -> [single |-> {<<"VM_PROT_READ", 0>>, <<"VM_PROT_WRITE", 1>>, <<"VM_PROT_EXECUTE", 2>>, <<"VM_PROT_NO_CHANGE", 3>>, <<"VM_PROT_COPY", 4>>, <<"VM_PROT_TRUSTED", 5>>, <<"VM_PROT_IS_MASK", 6>>, <<"VM_PROT_STRIP_READ", 7>>},
                    field |-> NoField, zero |-> {"VM_PROT_NONE"}]
    [] f = "ast" -> [single |-> {<<"AST_PREEMPT", 0>>, <<"AST_QUANTUM", 1>>, <<"AST_URGENT", 2>>, <<"AST_HANDOFF", 3>>, <<"AST_YIELD", 4>>, <<"AST_APC", 5>>, <<"AST_LEDGER", 6>>, <<"AST_BSD", 7>>, <<"AST_KPERF", 8>>, <<"AST_MACF", 9>>, <<"AST_RESET_PCS", 10>>, <<"AST_ARCADE", 11>>, <<"AST_GUARD", 12>>, <<"AST_TELEMETRY_USER", 13>>, <<"AST_TELEMETRY_KERNEL", 14>>, <<"AST_TELEMETRY_PMI", 15>>, <<"AST_SFI", 16>>, <<"AST_DTRACE", 17>>, <<"AST_TELEMETRY_IO", 18>>, <<"AST_KEVENT", 19>>, <<"AST_REBALANCE", 20>>, <<"AST_UNQUIESCE", 21>>},
                    field |-> NoField, zero |-> {"AST_NONE"}]
    [] f = "thstate" -> [single |-> {<<"TH_WAIT", 0>>, <<"TH_SUSP", 1>>, <<"TH_RUN", 2>>, <<"TH_UNINT", 3>>, <<"TH_TERMINATE", 4>>, <<"TH_TERMINATE2", 5>>, <<"TH_WAIT_REPORT", 6>>, <<"TH_IDLE", 7>>},
                    field |-> NoField, zero |-> {}]
    [] f = "sampler" -> [single |-> {<<"SAMPLER_TH_INFO", 0>>, <<"SAMPLER_TH_SNAPSHOT", 1>>, <<"SAMPLER_KSTACK", 2>>, <<"SAMPLER_USTACK", 3>>, <<"SAMPLER_PMC_THREAD", 4>>, <<"SAMPLER_PMC_CPU", 5>>, <<"SAMPLER_PMC_CONFIG", 6>>, <<"SAMPLER_MEMINFO", 7>>, <<"SAMPLER_TH_SCHEDULING", 8>>, <<"SAMPLER_TH_DISPATCH", 9>>, <<"SAMPLER_TK_SNAPSHOT", 10>>, <<"SAMPLER_SYS_MEM", 11>>, <<"SAMPLER_TH_INSCYC", 12>>, <<"SAMPLER_TK_INFO", 13>>},
                    field |-> NoField, zero |-> {}]
    [] f = "kperfti" -> [single |-> {<<"KPERF_TI_RUNNING", 0>>, <<"KPERF_TI_RUNNABLE", 1>>, <<"KPERF_TI_WAIT", 2>>, <<"KPERF_TI_UNINT", 3>>, <<"KPERF_TI_SUSP", 4>>, <<"KPERF_TI_TERMINATE", 5>>, <<"KPERF_TI_IDLE", 6>>},
                    field |-> NoField, zero |-> {}]
    [] f = "callstack" -> [single |-> {<<"CALLSTACK_VALID", 0>>, <<"CALLSTACK_DEFERRED", 1>>, <<"CALLSTACK_64BIT", 2>>, <<"CALLSTACK_KERNEL", 3>>, <<"CALLSTACK_TRUNCATED", 4>>, <<"CALLSTACK_CONTINUATION", 5>>, <<"CALLSTACK_KERNEL_WORDS", 6>>, <<"CALLSTACK_TRANSLATED", 7>>, <<"CALLSTACK_FIXUP_PC", 8>>},
                    field |-> NoField, zero |-> {}]
    [] f = "rtld" -> [single |-> {<<"RTLD_LAZY", 0>>, <<"RTLD_NOW", 1>>, <<"RTLD_LOCAL", 2>>, <<"RTLD_GLOBAL", 3>>, <<"RTLD_NOLOAD", 4>>, <<"RTLD_NODELETE", 7>>, <<"RTLD_FIRST", 8>>},
                    field |-> NoField, zero |-> {}]

\* Darwin names (single bits, values from the XNU headers) that the tool did NOT declare when the tables above were
\* transcribed.  A tool that declares more of Darwin's names later still satisfies the statement: such a name may be shown -
\* for a word in which its bit is set.  (Names in neither table cannot be checked against Darwin and are rejected.)
Extra(f) ==
  CASE f = "open" -> {<<"O_SYNC", 7>>, <<"O_FSYNC", 7>>, <<"O_NOCTTY", 17>>, <<"O_DIRECTORY", 20>>, <<"O_DSYNC", 22>>, <<"O_NOFOLLOW_ANY", 29>>}
    [] f = "chflags" -> {<<"UF_COMPRESSED", 5>>, <<"UF_TRACKED", 6>>, <<"UF_DATAVAULT", 7>>, <<"SF_RESTRICTED", 19>>, <<"SF_NOUNLINK", 20>>,
                         <<"SF_FIRMLINK", 23>>, <<"SF_DATALESS", 30>>}
    [] OTHER -> {}

DeclaredBits(f) == {p[2] : p \in Fam(f).single} \cup Fam(f).field.mask
FieldVal(f, word) == word \cap Fam(f).field.mask
FieldDefined(f, word) == \E p \in Fam(f).field.vals : p[1] = FieldVal(f, word)
FieldName(f, word) == (CHOOSE p \in Fam(f).field.vals : p[1] = FieldVal(f, word))[2]
FieldNames(f) == {p[2] : p \in Fam(f).field.vals}

\* the names the property demands for a word (zero-valued names aside):
\* every single bit that is set and has a name; the one name of the multi-bit field's value when the headers define it
Expected(f, word) ==
  {p[1] : p \in {q \in Fam(f).single : q[2] \in word}}
    \cup (IF Fam(f).field.mask # {} /\ FieldDefined(f, word) THEN {FieldName(f, word)} ELSE {})
\* is the multi-bit field value one the headers do not define (then its rendering is not pinned)
FieldWild(f, word) == Fam(f).field.mask # {} /\ ~FieldDefined(f, word)

FlagVerdict(f, word, shown) ==
  LET okExtra == {p[1] : p \in {q \in Extra(f) : q[2] \in word}}      \* later-declared Darwin names whose bit IS set
      sh == (shown \ Fam(f).zero) \ okExtra
      ex == Expected(f, word) \ Fam(f).zero
      wild == IF FieldWild(f, word) THEN FieldNames(f) ELSE {}
  IN IF \E n \in sh \ wild : n \notin ex THEN "name-shown-for-bits-not-set"
     ELSE IF \E n \in ex : n \notin sh THEN "set-bit-with-declared-name-not-shown"
     ELSE "ok"

\* ---- mechanism: the helper algorithms of the code, transcribed -----------------------------------
\* Variant: "ok" | "noasync" (O_ASYNC missing from serialize_open_flags' list, pinned tree)
\*               | "singlebit" (stat flags iterate only single-bit members: Python >= 3.11 on the pinned tree)
Shown(variant, f, word) ==
  CASE f = "open" ->
         (IF 1 \in word THEN {"O_RDWR"} ELSE IF 0 \in word THEN {"O_WRONLY"} ELSE {"O_RDONLY"})
           \cup {p[1] : p \in {q \in Fam(f).single : q[2] \in word /\ ~(variant = "noasync" /\ q[1] = "O_ASYNC")}}
    [] f = "mode" ->
         {p[1] : p \in {q \in Fam(f).single : q[2] \in word}}
           \cup {p[2] : p \in {q \in Fam(f).field.vals : q[1] = FieldVal(f, word)
                                                        /\ ~(variant = "singlebit" /\ Cardinality(q[1]) > 1)}}
    [] f = "access" -> LET s == {p[1] : p \in {q \in Fam(f).single : q[2] \in word}} IN IF s = {} THEN {"F_OK"} ELSE s
    [] f \in {"ast", "vmprot"} -> IF word = {} THEN Fam(f).zero ELSE {p[1] : p \in {q \in Fam(f).single : q[2] \in word}}
    [] OTHER -> {p[1] : p \in {q \in Fam(f).single : q[2] \in word}}

\* ---- ioctl request words: the inverse of Darwin's _IOC packing -------------------------------------
\* request = dir(3 bits, 29..31) | len(13 bits, 16..28) | group(8 bits, 8..15) | num(8 bits, 0..7)
DirName(d) == CASE d = 1 -> "IOC_VOID" [] d = 2 -> "IOC_OUT" [] d = 4 -> "IOC_IN" [] d = 6 -> "IOC_IN | IOC_OUT"
                [] d = 7 -> "IOC_DIRMASK" [] OTHER -> "?"
DirDefined(d) == d \in {1, 2, 4, 6, 7}
\* mechanism of BscIoctl.__str__ ; MaskVariant "e" = 0xe0000000 (3 direction bits), "f" = 0xf0000000 (pinned: + length bit 28)
IocShown(maskVariant, d, len, group, num) ==
  LET key == IF maskVariant = "f" THEN 2 * d + (len \div 4096) ELSE 2 * d      \* (request & mask) >> 28
  IN [ok |-> (key % 2 = 0) /\ DirDefined(key \div 2),                         \* else KeyError
      params |-> DirName(key \div 2), group |-> group, num |-> num, len |-> len]
\* request NAMES a rendering may add (sys/filio.h): name -> <<direction, group 'f' = 102, number, length>>; a name that
\* is in this table must be shown for exactly its own request (names outside the table are not judged)
IocNames == [FIOCLEX |-> <<1, 102, 1, 0>>, FIONCLEX |-> <<1, 102, 2, 0>>, FIONREAD |-> <<2, 102, 127, 4>>,
             FIONBIO |-> <<4, 102, 126, 4>>, FIOASYNC |-> <<4, 102, 125, 4>>, FIOSETOWN |-> <<4, 102, 124, 4>>,
             FIOGETOWN |-> <<2, 102, 123, 4>>, FIODTYPE |-> <<2, 102, 122, 4>>]
IocVerdict(d, len, group, num, sh) ==
  IF ~DirDefined(d) THEN "ok"
  ELSE IF ~sh.ok THEN "raised"
  ELSE IF "name" \in DOMAIN sh /\ sh.name \in DOMAIN IocNames /\ IocNames[sh.name] # <<d, group, num, len>> THEN "request-name-not-darwin"
  ELSE IF sh.params # DirName(d) THEN "direction"
  ELSE IF sh.group # group THEN "group" ELSE IF sh.num # num THEN "number" ELSE IF sh.len # len THEN "length" ELSE "ok"
=============================================================================
