----------------------------- MODULE Sessions_MC ------------------------------
(* M |= P for the generator-grain object: EVERY schedule of Open / Advance / SetCfg over at most     *)
(* MaxGens listings of two small dumps (learning records written by the parent thread, a sampler    *)
(* thread-info record of a helper class, an image announcement and a sample), two filter settings   *)
(* and two code tables.  CleanIsAtomic: a listing during whose life nothing else happened equals    *)
(* Pipeline's atomic reference - whatever happened BEFORE it on the object (abandoned half-read     *)
(* listings, other dumps, edited filter lists).  SelectionIsAtomic: under any interleaving the      *)
(* selection, order and names of every undisturbed listing equal the reference.  Each SVariant      *)
(* must be rejected.                                                                                *)
EXTENDS Sessions

CONSTANTS MaxGens, MaxSteps, Kinds, Cfgs

Data(bs) == bs \o [i \in 1..(32 - Len(bs)) |-> 0]
Mk(tpl, t, k) ==
  LET E(code, cls, q, a, cc, sc) == [k |-> k, tid |-> t, code |-> code, cls |-> cls, q |-> q, a |-> a, cc |-> cc, sc |-> sc]
      o == IF t = 1 THEN 2 ELSE 1 IN
  CASE tpl = "B2"  -> E(2, "SYS0", 3, [x |-> 0], 4, 1037)
    [] tpl = "B3"  -> E(3, "SYS0", 0, [x |-> 0], 4, 1036)
    [] tpl = "NTDo" -> E(4, "NTD", 0, [ntid |-> o, pid |-> 5], 7, 1792)
    [] tpl = "NTS" -> E(5, "NTS", 3, [name |-> "q"], 7, 1793)
    [] tpl = "THD" -> E(6, "THD", 0, [pid |-> 6, ttid |-> t], 37, 9473)
    [] tpl = "M"   -> E(8, "SYS0", 0, [x |-> 0], 1, 320)
    [] tpl = "PS"  -> E(9, "PERF", 1, [ti |-> FALSE, us |-> TRUE], 37, 9472)
    [] tpl = "PE"  -> E(9, "PERF", 2, [ti |-> FALSE, us |-> TRUE], 37, 9472)
    [] tpl = "H2"  -> E(10, "UHDR", 0, [n |-> 2], 37, 9474)
    [] tpl = "D"   -> E(11, "UDATA", 0, [frames |-> <<0, 1, 2, 3>>], 37, 9474)
    [] tpl = "IMG" -> E(12, "MAPA", 0, [rank |-> 1, id |-> 1], 31, 7941)
    [] tpl = "IMG2" -> E(12, "MAPA", 0, [rank |-> 0, id |-> 2], 31, 7941)
    [] tpl = "TERMo" -> E(7, "TERM", 0, [ttid |-> o], 7, 1792)                   \* a record ABOUT the other thread: reads its name
    [] tpl = "TN"  -> E(13, "TNAME", 3, [data |-> Data(<<84, 48 + t>>)], 7, 1794) \* the thread names itself

DumpOf(shape, tm) == [tmap |-> tm, evs |-> [i \in 1..Len(shape) |-> Mk(shape[i][1], shape[i][2], i)], logs |-> <<>>]
TM1 == <<[tid |-> 1, pid |-> 5, name |-> "p"]>>
TM2 == <<[tid |-> 2, pid |-> 5, name |-> "r"]>>
\* dump 1: the parent announces thread 2 and names its process; a mach record; dump 2: the string record WITHOUT its
\* data record (must learn nothing), a sampler thread-info record
DumpsLearn == << DumpOf(<< <<"B2", 1>>, <<"NTDo", 1>>, <<"M", 2>>, <<"B3", 2>> >>, TM1),
                 DumpOf(<< <<"NTS", 1>>, <<"THD", 1>>, <<"B2", 1>>, <<"B3", 2>> >>, TM2) >>
\* dump 1 announces image 2 below the frames, dump 2 has only a sample
DumpsImg == << DumpOf(<< <<"IMG2", 1>>, <<"PS", 1>>, <<"H2", 1>>, <<"D", 1>>, <<"PE", 1>> >>, TM1),
               DumpOf(<< <<"PS", 1>>, <<"H2", 1>>, <<"D", 1>>, <<"PE", 1>>, <<"IMG", 1>> >>, TM1) >>
\* version-3 dumps with log records: one names a process and a thread (extends the tables), one of thread 0 ("no thread")
L(i, t, p, n) == [i |-> i, tid |-> t, pid |-> p, proc |-> n]
DumpsLogs == << [DumpOf(<< <<"B2", 1>>, <<"B3", 2>> >>, TM1) EXCEPT !.logs = <<L(1, 2, 6, "s"), L(2, 0, 5, "p"), L(3, 1, 5, "")>>],
                [DumpOf(<< <<"B3", 2>> >>, TM2) EXCEPT !.logs = <<L(1, 1, 9, "z"), L(2, 2, 5, "r")>>] >>
\* use BEFORE definition: thread 1 records the end of thread 2 before thread 2 has named itself (read once, the record shows no
\* name); dump 2 names thread 2 first
DumpsNames == << DumpOf(<< <<"TERMo", 1>>, <<"TN", 2>>, <<"B3", 2>> >>, TM1),
                 DumpOf(<< <<"TN", 2>>, <<"TERMo", 1>> >>, TM2) >>
CONSTANT DumpSet
Dumps == IF DumpSet = "learn" THEN DumpsLearn ELSE IF DumpSet = "logs" THEN DumpsLogs
         ELSE IF DumpSet = "names" THEN DumpsNames ELSE DumpsImg

Tables == [A |-> {2, 3, 4, 5, 6, 8}, B |-> {2, 8, 9}]
CodesFor(kind) == IF kind = "fkev" THEN {"A", "B"} ELSE IF kind \in {"kev", "logs"} THEN {"-"} ELSE {"W"}

NoF == [ftid |-> NoneTid, fproc |-> NoProc, fclass |-> <<>>, fsub |-> <<>>]
CfgAll == {NoF, [NoF EXCEPT !.fclass = <<4>>], [NoF EXCEPT !.fsub = <<1036>>], [NoF EXCEPT !.fclass = <<1>>, !.fsub = <<1037>>]}
CfgTwo == {NoF, [NoF EXCEPT !.fclass = <<4>>]}
CfgSub == {NoF, [NoF EXCEPT !.fsub = <<1036>>], [NoF EXCEPT !.fsub = <<1037>>]}
CfgNone == {NoF}
CfgLogs == {NoF, [NoF EXCEPT !.ftid = 2], [NoF EXCEPT !.fproc = [kind |-> "name", name |-> "r"]], [NoF EXCEPT !.fproc = [kind |-> "both", pid |-> 5, name |-> "5"]]}

VARIABLES so, gens, steps
vars == <<so, gens, steps>>

Init == so = InitSObj /\ gens = <<>> /\ steps = 0

\* what another listing does disturbs a listing only once it has been started (its first next() resets everything it
\* reads: thread map, a fresh TracesParser) - except a callstack listing, whose image table is reset when it is REQUESTED
\* REQUESTING a listing changes nothing the others read - except that requesting callstacks resets the image table
DisturbOpen(gs, kind) == [j \in 1..Len(gs) |-> IF kind = "cs" /\ gs[j].kind = "cs" /\ ~gs[j].done
                                                THEN [gs[j] EXCEPT !.clean = FALSE] ELSE gs[j]]
Disturb(gs, except) == [j \in 1..Len(gs) |-> IF j # except /\ ~gs[j].done /\ (gs[j].started \/ gs[j].kind = "cs")
                                               THEN [gs[j] EXCEPT !.clean = FALSE] ELSE gs[j]]

Open == /\ Len(gens) < MaxGens
        /\ \E kind \in Kinds, d \in 1..Len(Dumps) : \E c \in CodesFor(kind) :
              /\ gens' = Append(DisturbOpen(gens, kind), NewGen(so, kind, d, c))
              /\ so' = OpenObj(so, kind, d, c)
Advance == \E i \in 1..Len(gens) :
             /\ ~gens[i].done /\ ~gens[i].dirty
             /\ LET r == Adv(so, gens[i], Dumps[gens[i].d], Tables) IN
                  /\ so' = r.so
                  /\ gens' = [Disturb(gens, i) EXCEPT ![i] = r.g]
SetCfg == \E cfg \in Cfgs, inplace \in BOOLEAN :
             /\ cfg # CfgOf(so.o)
             /\ so' = SetCfgObj(so, cfg, inplace)
             /\ gens' = [j \in 1..Len(gens) |-> IF gens[j].done THEN gens[j] ELSE [gens[j] EXCEPT !.dirty = TRUE, !.clean = FALSE]]
Next == /\ steps < MaxSteps
        /\ steps' = steps + 1
        /\ (Open \/ Advance \/ SetCfg)
Spec == Init /\ [][Next]_vars

CleanIsAtomic ==
  \A i \in 1..Len(gens) : gens[i].clean =>
     Agrees(gens[i], gens[i].out, AtomicOut(gens[i], Dumps[gens[i].d], Tables))
SelectionIsAtomic ==
  \A i \in 1..Len(gens) : (~gens[i].dirty /\ gens[i].cfg.fproc.kind = "none") =>
     Agrees(gens[i], SelSeq(gens[i].kind, gens[i].out), SelSeq(gens[i].kind, AtomicOut(gens[i], Dumps[gens[i].d], Tables)))

\* ---- vacuity guards: each of these "never" statements must be VIOLATED (TLC shows a witness), otherwise the two properties
\* above would hold for want of listings they talk about
NeverCleanFinishedWithItems ==
  ~ \E i \in 1..Len(gens) : gens[i].clean /\ gens[i].done /\ Len(gens[i].out) >= 2 /\ Len(gens) >= 2
NeverDisturbedWithItems ==
  ~ \E i \in 1..Len(gens) : ~gens[i].clean /\ ~gens[i].dirty /\ Len(gens[i].out) >= 2
NeverNamedThread ==      \* some clean listing does show a thread name in a record about another thread
  ~ \E i \in 1..Len(gens) : gens[i].clean /\ gens[i].kind = "tr" /\
        \E j \in 1..Len(gens[i].out) : gens[i].out[j].f.c = "TERM" /\ gens[i].out[j].f.name # NoText
NeverKnownProcess ==
  ~ \E i \in 1..Len(gens) : gens[i].clean /\ \E j \in 1..Len(gens[i].out) : "proc" \in DOMAIN gens[i].out[j] /\ gens[i].out[j].proc.known
=============================================================================
