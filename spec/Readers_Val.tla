----------------------------- MODULE Readers_Val ------------------------------
(* code -> spec for the reader at generator grain.  One observation = a session over several        *)
(* KdBufParser objects:  files (structural values, encoded to bytes by the harness), readers (how    *)
(* each object was constructed) and the caller's actions                                             *)
(*    [op |-> "open", r, f]              parse() of file f called on reader r                        *)
(*    [op |-> "adv", g, found, item]     one next() on the g-th listing; at its end also the         *)
(*                                       reader's tables and metadata attributes at that moment       *)
(* folded as a state machine (one TLC state per action) with Readers!Adv.                            *)
EXTENDS Readers, Json, IOUtils

Obs == JsonDeserialize(IOEnv.OBS_FILE)

SameTable(pairs, f) ==
  /\ {pairs[i][1] : i \in 1..Len(pairs)} = DOMAIN f
  /\ \A i \in 1..Len(pairs) : f[pairs[i][1]] = pairs[i][2]

ItemOK(got, exp) ==
  /\ got.k = exp.k
  /\ IF exp.k = "ev" THEN got.id = exp.id
     ELSE got.msg = exp.msg /\ got.proc = exp.proc /\ got.tid = exp.tid /\ got.pid = exp.pid

MetaVerdict(m, e) ==
  IF m.codes # e.codes THEN "trace_codes"
  ELSE IF m.kexts # e.kexts THEN "kernel_extensions"
  ELSE IF m.dyld.bins # e.dyld.bins \/ m.dyld.extra # e.dyld.extra THEN "dyld_modules"
  ELSE IF m.procs # e.procs THEN "processes"
  ELSE IF m.images # e.images THEN "images"
  ELSE "ok"

Ids(o) == {TabId(r, o.readers[r]) : r \in 1..Len(o.readers)}
\* settled[id]: what the PROPERTIES say the table pair holds - known after a parse on that pair that nothing sharing it
\* disturbed (the file's tables), and before any parse (empty); unknown while / after listings on the pair were interleaved
\* (the intermediate contents then depend on when the code writes, which no property pins)
Known(t) == [known |-> TRUE, t |-> t]
Unknown == [known |-> FALSE, t |-> NoTables]
W0(o) == [readers |-> [r \in 1..Len(o.readers) |-> NewReader(o.readers[r])],
          tables |-> [id \in Ids(o) |-> NoTables], settled |-> [id \in Ids(o) |-> Known(NoTables)], gens |-> <<>>]

ActStep(o, W, a) ==
  IF "err" \in DOMAIN a THEN [v |-> "raised", W |-> W]
  ELSE IF a.op = "open" THEN
    \* making a request reads the version bytes only: no table pair changes (the pairs the properties pin are compared)
    [v |-> IF \E r \in 1..Len(o.readers) :
                 LET st == W.settled[TabId(r, o.readers[r])] IN
                 st.known /\ (~SameTable(a.tabs[r][1], st.t.tpid) \/ ~SameTable(a.tabs[r][2], st.t.pname))
           THEN "request-changed-tables" ELSE "ok",
     W |-> [W EXCEPT !.gens = Append(@, NewGen(a.r, o.files[a.f]))]]
  ELSE LET g  == W.gens[a.g]
           id == TabId(g.r, o.readers[g.r])
           x  == Adv(W.readers[g.r], W.tables[id], g)
           whole == Whole(g.f)
           endsClean == ~x.found /\ x.g.clean
           W1 == [readers |-> [W.readers EXCEPT ![g.r] = x.reader],
                  tables |-> [W.tables EXCEPT ![id] = x.tab],
                  settled |-> [W.settled EXCEPT ![id] = IF endsClean THEN Known([tpid |-> whole.st.tpid, pname |-> whole.st.pname]) ELSE Unknown],
                  gens |-> [j \in 1..Len(W.gens) |->
                             IF j = a.g THEN x.g
                             ELSE [W.gens[j] EXCEPT !.clean = @ /\ ~Legit(g.r, o.readers[g.r], W.gens[j].r, o.readers[W.gens[j].r]),
                                                    !.cleanR = @ /\ W.gens[j].r # g.r]]]
           v == IF g.done THEN "harness-advanced-a-dead-listing"
                ELSE IF x.found /\ ~a.found THEN "missing-yield"
                ELSE IF ~x.found /\ a.found THEN "extra-yield"
                ELSE IF x.found THEN (IF ItemOK(a.item, x.item) THEN "ok" ELSE "yield-content-or-order")
                \* the listing is complete
                ELSE IF x.g.out # whole.yields THEN "yields-are-not-the-file"
                \* the table pair of EVERY reader object whose contents the properties pin (own pairs stay apart)
                ELSE IF \E r \in 1..Len(o.readers) :
                          LET st == W1.settled[TabId(r, o.readers[r])] IN
                          st.known /\ (~SameTable(a.tabs[r][1], st.t.tpid) \/ ~SameTable(a.tabs[r][2], st.t.pname))
                     THEN "tables-of-some-reader-object"
                ELSE IF x.g.clean /\ ~SameTable(a.tpid, whole.st.tpid) THEN "threads_pids"
                ELSE IF x.g.clean /\ ~SameTable(a.pname, whole.st.pname) THEN "pids_names"
                ELSE IF x.g.cleanR /\ g.f.ver = 3 THEN MetaVerdict(a.meta, whole.st.meta)
                ELSE "ok"
       IN [v |-> v, W |-> W1]

VARIABLES oi, ai, W
vars == <<oi, ai, W>>
Init == oi = 1 /\ ai = 1 /\ W = (IF Len(Obs) > 0 THEN W0(Obs[1]) ELSE [readers |-> <<>>, tables |-> <<>>, settled |-> <<>>, gens |-> <<>>])
NextObs == /\ oi' = oi + 1 /\ ai' = 1
           /\ W' = IF oi + 1 <= Len(Obs) THEN W0(Obs[oi + 1]) ELSE W
Next ==
  /\ oi <= Len(Obs)
  /\ LET o == Obs[oi] IN
     IF ai > Len(o.acts) THEN NextObs
     ELSE LET r == ActStep(o, W, o.acts[ai]) IN
          IF r.v = "ok" THEN oi' = oi /\ ai' = ai + 1 /\ W' = r.W
          ELSE PrintT(<<"REJ", o.id, r.v \o "@" \o ToString(ai)>>) /\ NextObs
Spec == Init /\ [][Next]_vars

ASSUME PrintT(<<"VAL", Len(Obs)>>)
=============================================================================
