---------------------------- MODULE Callstacks_MC -----------------------------
(* M |= P for C15: every sequence (<= MaxLen) of image announcements (single records and launch     *)
(* lists; any order, duplicates, adjacent and equal addresses) interleaved with samples whose        *)
(* frames lie below / at / above every load address.                                                *)
EXTENDS Callstacks

CONSTANTS MaxLen, Ranks, Ids

Ann(r, i) == [emit |-> TRUE, cls |-> "MAPA", win |-> <<1>>, f |-> [c |-> "MAPA", rank |-> r, id |-> i]]
Launch(xs) == [emit |-> TRUE, cls |-> "LAUNCH", win |-> <<1, 2>>, f |-> [c |-> "LAUNCH", imgs |-> xs]]
Sample(fr) == [emit |-> TRUE, cls |-> "PERF", win |-> <<7, 8>>, f |-> [c |-> "PERF", thi |-> -1, frames |-> fr]]
NoStack == [emit |-> TRUE, cls |-> "PERF", win |-> <<7, 8>>, f |-> [c |-> "PERF", thi |-> -1, frames |-> <<-1>>]]
I(r, i) == [rank |-> r, id |-> i, kind |-> "MAPA"]
LaunchLists == {<<>>, <<I(1, 1)>>, <<I(1, 2), I(3, 1)>>, <<I(0, 1), I(2, 2), I(2, 1)>>}
AllFrames == [i \in 1..6 |-> i - 1]          \* one frame at every address 0..5
Inputs == {Ann(r, i) : r \in Ranks, i \in Ids} \cup {Launch(xs) : xs \in LaunchLists}
          \cup {Sample(AllFrames), Sample(<<>>), NoStack}

VARIABLES img, first, cs, n
vars == <<img, first, cs, n>>
Init == img = <<>> /\ first = <<>> /\ cs = NoCs /\ n = 0

Put(f, k, v) == [x \in DOMAIN f \cup {k} |-> IF x = k THEN v ELSE f[x]]
RECURSIVE NoteAll(_, _, _)
NoteAll(f, xs, i) == IF i > Len(xs) THEN f
                     ELSE NoteAll(IF xs[i].rank \in DOMAIN f THEN f ELSE Put(f, xs[i].rank, xs[i].id), xs, i + 1)
Note(f, out) == CASE out.cls = "MAPA" -> IF out.f.rank \in DOMAIN f THEN f ELSE Put(f, out.f.rank, out.f.id)
                  [] out.cls = "LAUNCH" -> NoteAll(f, out.f.imgs, 1)
                  [] OTHER -> f

Next == /\ n < MaxLen
        /\ \E i \in Inputs : LET r == CsStep(img, i) IN img' = r.img /\ cs' = r.cs /\ first' = Note(first, i)
        /\ n' = n + 1
Spec == Init /\ [][Next]_vars

Sorted == StrictlyAscending(img)
\* the table (hence every later attribution) depends only on the set of first announcements, not on their order
OrderIndependent == img = Canon(first)
FirstIdentityKept == \A i \in 1..Len(img) : img[i].id = first[img[i].rank]
AttributionRight ==
  cs.emit => \A j \in 1..Len(cs.frames) :
     LET fr == cs.frames[j]
         cands == {r \in DOMAIN first : r <= fr.x}
     IN IF cands = {} THEN fr.id = NoImg
        ELSE LET best == CHOOSE r \in cands : \A q \in cands : q <= r
             IN fr.id = first[best] /\ fr.off = fr.x - best /\ fr.off >= 0
OneStackPerSample == [][ cs'.emit => Len(cs'.frames) \in {0, 6} ]_vars
=============================================================================
