----------------------------- MODULE Sessions_Val -----------------------------
(* code -> spec at generator grain: one observation = a SESSION on one PyKdebugParser object:        *)
(*   dumps   the dumps used (abstract, as Pipeline_Val), tables the named codes of code tables A / B *)
(*   acts    the caller's actions in order                                                           *)
(*      [op |-> "cfg",  cfg, inplace]          filter settings assigned (new lists) or edited in place *)
(*      [op |-> "open", kind, d, codes]        request method called: kev / fkev / tr / cs on dump d   *)
(*      [op |-> "adv",  g, found, item]        one next() on the g-th listing opened: the item or end  *)
(* The Sessions mechanism is folded over the actions; every next() must produce what the mechanism  *)
(* produces (binding), and the two properties of Sessions_MC are evaluated on the recorded session.  *)
EXTENDS Sessions, Json, IOUtils

Obs == JsonDeserialize(IOEnv.OBS_FILE)

SetOf(xs) == {xs[i] : i \in 1..Len(xs)}
TablesOf(o) == [c \in {"A", "B"} |-> SetOf(o.tables[c])]

ProcOK(g, p) ==
  IF ~g.shown THEN TRUE
  ELSE IF p.known THEN g.known /\ g.pid = p.pid /\ g.name = p.name
  ELSE ~g.known

FramesOK(got, want) ==
  /\ Len(got) = Len(want)
  /\ \A j \in 1..Len(want) : got[j][1] = want[j].x /\ got[j][2] = want[j].id /\ got[j][3] = want[j].off

\* full: the listing was read undisturbed (the properties pin the process column and the attribution too);
\* otherwise only what does not depend on the tables / image table shared by all listings of the object
ItemVerdict(kind, got, want, full) ==
  IF kind \in {"kev", "fkev"} THEN
       IF got.k # want.k THEN "wrong-event"
       ELSE IF got.name # want.name THEN "wrong-name-table"
       ELSE IF full /\ ~ProcOK(got.proc, want.proc) THEN "process-column"
       ELSE "ok"
  ELSE IF kind = "tr" THEN
       IF got.k # want.k \/ got.first # want.first THEN "wrong-trace"
       \* a record ABOUT a thread shows the name the listing's own TracesParser has learned so far - nothing another listing
       \* or an earlier request learned (names live in the generator: compared whether or not the listing was disturbed)
       ELSE IF want.f.c = "TERM" /\ "tn" \in DOMAIN got /\ got.tn # want.f.name THEN "wrong-thread-name"
       ELSE IF full /\ ~ProcOK(got.proc, want.proc) THEN "process-column"
       ELSE "ok"
  ELSE IF kind = "logs" THEN
       IF got.i # want.i THEN "wrong-log-record"
       ELSE IF full /\ ~ProcOK(got.proc, want.proc) THEN "process-column"
       ELSE "ok"
  ELSE IF got.start # want.start THEN "wrong-sample"
       ELSE IF full /\ ~FramesOK(got.frames, want.frames) THEN "attribution"
       ELSE "ok"

\* what another listing does disturbs a listing only once it has been started (its first next() resets everything it
\* reads: thread map, a fresh TracesParser) - except a callstack listing, whose image table is reset when it is REQUESTED
\* REQUESTING a listing changes nothing the others read - except that requesting callstacks resets the image table
DisturbOpen(gs, kind) == [j \in 1..Len(gs) |-> IF kind = "cs" /\ gs[j].kind = "cs" /\ ~gs[j].done
                                                THEN [gs[j] EXCEPT !.clean = FALSE] ELSE gs[j]]
Disturb(gs, except) == [j \in 1..Len(gs) |-> IF j # except /\ ~gs[j].done /\ (gs[j].started \/ gs[j].kind = "cs")
                                               THEN [gs[j] EXCEPT !.clean = FALSE] ELSE gs[j]]

\* One action of the session applied to W = [so, gens]: [v |-> "ok" or the failing clause, W |-> state after it].
\* The fold is a STATE MACHINE (one TLC state per caller action), not a recursive operator: every step is evaluated
\* once on concrete values (a recursive fold re-evaluates its lazily passed state and takes exponential time).
ActStep(o, tables, W, a) ==
  \* a dump cut in the middle of a record: the listing ends with an error once the complete records are used up - that IS
  \* its end (C06); an error anywhere else is a violation
  IF "err" \in DOMAIN a /\ ~("cutend" \in DOMAIN a) /\ a.op # "badopen" THEN [v |-> "raised", W |-> W]
  \* a request on something that is not a dump is refused when the method is called: no listing, no change;
  \* a listing the caller drops (last reference deleted, finalisers run) changes nothing for the others
  ELSE IF a.op = "drop" THEN [v |-> "ok", W |-> W]
  \* (a refused callstacks request has still reset the image table before it was refused)
  ELSE IF a.op = "badopen" THEN [v |-> "ok", W |-> [W EXCEPT !.gens = DisturbOpen(@, a.kind)]]
  ELSE IF a.op = "cfg" THEN
    [v |-> "ok",
     W |-> [so |-> SetCfgObj(W.so, a.cfg, a.inplace),
            gens |-> [j \in 1..Len(W.gens) |-> IF W.gens[j].done THEN W.gens[j]
                                                ELSE [W.gens[j] EXCEPT !.dirty = TRUE, !.clean = FALSE]]]]
  ELSE IF a.op = "open" THEN
    [v |-> "ok",
     W |-> [so |-> OpenObj(W.so, a.kind, a.d, a.codes),
            gens |-> Append(DisturbOpen(W.gens, a.kind), NewGen(W.so, a.kind, a.d, a.codes))]]
  ELSE LET g == W.gens[a.g]
           dump == o.dumps[g.d]
           r == Adv(W.so, g, dump, tables)
           v == IF r.found /\ ~a.found THEN "listing-ended-early"
                ELSE IF ~r.found /\ a.found THEN "listing-has-extra-item"
                ELSE IF r.found THEN ItemVerdict(g.kind, a.item, r.item, g.clean)
                ELSE "ok"
           \* a process filter reads the shared tables: once such a listing was disturbed the properties no longer say
           \* what it selects - it is dropped from the comparison (like a listing whose options were changed)
           unclaimed == ~g.clean /\ g.cfg.fproc.kind # "none"
           ref == AtomicOut(r.g, dump, tables)
           W1 == [so |-> r.so, gens |-> [Disturb(W.gens, a.g) EXCEPT ![a.g] = r.g]]
       IN IF g.done THEN [v |-> "harness-advanced-a-dead-listing", W |-> W]
          \* a listing that is no longer claimed still runs in the code and still disturbs the others
          ELSE IF g.dirty THEN [v |-> "ok", W |-> [W EXCEPT !.gens = Disturb(@, a.g)]]
          ELSE IF unclaimed THEN [v |-> "ok", W |-> [W EXCEPT !.gens = [Disturb(@, a.g) EXCEPT ![a.g].dirty = TRUE]]]
          ELSE IF v # "ok" THEN [v |-> v, W |-> W]
          ELSE IF r.found THEN [v |-> "ok", W |-> W1]
          \* the listing is complete: compare with the reference (properties of Sessions_MC on the recorded session)
          ELSE IF r.g.clean /\ ~Agrees(r.g, r.g.out, ref) THEN [v |-> "clean-listing-differs-from-reference", W |-> W]
          ELSE IF r.g.cfg.fproc.kind = "none" /\ ~Agrees(r.g, SelSeq(g.kind, r.g.out), SelSeq(g.kind, ref))
               THEN [v |-> "selection-differs-from-reference", W |-> W]
          ELSE [v |-> "ok", W |-> W1]

\* end of the session: what every listing delivered so far is a prefix of its reference
EndVerdict(o, tables, W) ==
  LET Bad(j) == LET g == W.gens[j]
                    ref == AtomicOut(g, o.dumps[g.d], tables)
                IN \/ g.clean /\ ~Agrees(g, g.out, ref)
                   \/ ~g.dirty /\ g.cfg.fproc.kind = "none" /\ ~Agrees(g, SelSeq(g.kind, g.out), SelSeq(g.kind, ref))
  IN IF \E j \in 1..Len(W.gens) : Bad(j)
     THEN "listing-differs-from-reference@listing" \o ToString(CHOOSE j \in 1..Len(W.gens) : Bad(j))
     ELSE "ok"

W0 == [so |-> InitSObj, gens |-> <<>>]

VARIABLES oi, ai, W
vars == <<oi, ai, W>>
Init == oi = 1 /\ ai = 1 /\ W = W0
NextObs == oi' = oi + 1 /\ ai' = 1 /\ W' = W0
Next ==
  /\ oi <= Len(Obs)
  /\ LET o == Obs[oi]
         tables == TablesOf(o)
     IN IF ai > Len(o.acts)
        THEN LET v == EndVerdict(o, tables, W) IN IF v = "ok" THEN NextObs ELSE PrintT(<<"REJ", o.id, v>>) /\ NextObs
        ELSE LET r == ActStep(o, tables, W, o.acts[ai]) IN
             IF r.v = "ok" THEN oi' = oi /\ ai' = ai + 1 /\ W' = r.W
             ELSE PrintT(<<"REJ", o.id, r.v \o "@" \o ToString(ai)>>) /\ NextObs
Spec == Init /\ [][Next]_vars

ASSUME PrintT(<<"VAL", Len(Obs)>>)
=============================================================================
