---------------------------- MODULE KdRecord_Val ----------------------------
(* code -> spec: every observation is (record bytes, what from_kd_buf returned, as LE byte lists).  *)
EXTENDS KdRecord, Json, IOUtils, FiniteSets

Obs == JsonDeserialize(IOEnv.OBS_FILE)

ToFn(s) == [i \in 1..Len(s) |-> s[i]]

Verdict(o) ==
  LET e == Decode(o.r) IN
  IF "err" \in DOMAIN o THEN "raised"
  ELSE IF ToFn(o.ts) # e.ts THEN "timestamp"
  ELSE IF ToFn(o.data) # e.data THEN "data"
  ELSE IF \E k \in 1..4 : ToFn(o.values[k]) # e.values[k] THEN "values"
  ELSE IF ToFn(o.tid) # e.tid THEN "tid"
  ELSE IF ToFn(o.debugid) # e.debugid THEN "debugid"
  ELSE IF ToFn(o.eventid) # e.eventid THEN "eventid"
  ELSE IF o.qual # e.qual THEN "qualifier"
  ELSE "ok"

ASSUME PrintT(<<"VAL", Len(Obs)>>)
ASSUME \A i \in 1..Len(Obs) : Verdict(Obs[i]) = "ok" \/ PrintT(<<"REJ", Obs[i].id, Verdict(Obs[i])>>)

VARIABLE dummy
VInit == dummy = 0
VNext == UNCHANGED dummy
Spec == VInit /\ [][VNext]_dummy
=============================================================================
