------------------------------ MODULE KdRecord ------------------------------
(* C01 - the 64-byte kd_buf record decoder (pykdebugparser/kevent.py: from_kd_buf).                  *)
(* A record is a sequence of 64 bytes.  Every 64-bit quantity stays a little-endian byte sequence:   *)
(* TLC integers are 32 bit, and the property is about which input byte each output byte comes from.  *)
EXTENDS Naturals, Sequences, TLC

Byte == 0..255
RecLen == 64

\* --- mechanism: the struct layout '<Q32sQIIQ' and the two masks ---------------------------------
Slice(r, a, b) == [i \in 1..(b - a + 1) |-> r[a + i - 1]]

Decode(r) ==
  [ ts      |-> Slice(r, 1, 8),
    data    |-> Slice(r, 9, 40),
    values  |-> [k \in 1..4 |-> Slice(r, 9 + 8 * (k - 1), 16 + 8 * (k - 1))],
    tid     |-> Slice(r, 41, 48),
    debugid |-> Slice(r, 49, 52),
    eventid |-> <<r[49] - (r[49] % 4), r[50], r[51], r[52]>>,     \* debugid & 0xfffffffc
    qual    |-> r[49] % 4 ]                                        \* debugid & 0x00000003

\* --- property side -------------------------------------------------------------------------------
Rebuild(e) ==    \* the first 52 bytes from the event alone (eventid | qual reassembles debugid)
  e.ts \o e.data \o e.tid \o <<e.eventid[1] + e.qual, e.eventid[2], e.eventid[3], e.eventid[4]>>

\* which input bytes each output field may depend on
Owner == [ ts |-> 1..8, data |-> 9..40, tid |-> 41..48, debugid |-> 49..52,
           eventid |-> 49..52, qual |-> {49}, values |-> 9..40 ]
Fields == DOMAIN Owner

ValuesOwner(k) == (9 + 8 * (k - 1))..(16 + 8 * (k - 1))

=============================================================================
