------------------------- MODULE MC_CallstacksInd ---------------------------
MaxImages == 4
Guarded == TRUE
VARIABLES
  \* @type: Seq({rank: Int, id: Int});
  img,
  \* @type: Int -> Int;
  first
INSTANCE CallstacksInd
=============================================================================
