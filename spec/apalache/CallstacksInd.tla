--------------------------- MODULE CallstacksInd ----------------------------
(* Extra (Apalache, symbolic): the image table of Callstacks.tla stays strictly ascending by load   *)
(* address with unique addresses and keeps the first identity, for ARBITRARY integer addresses and  *)
(* identities (TLC checks this only for small ranks) and tables of up to MaxImages entries.          *)
(* Inductive check:  Init => IndInv  and  IndInv /\ Next => IndInv'.                                 *)
EXTENDS Integers, Sequences, Apalache

CONSTANTS
  \* @type: Int;
  MaxImages,
  \* @type: Bool;
  Guarded          \* FALSE = negative control: an address announced twice is inserted twice

VARIABLES
  \* @type: Seq({rank: Int, id: Int});
  img,
  \* @type: Int -> Int;
  first

\* @type: (Seq({rank: Int, id: Int}), Int) => Bool;
Has(t, r) == \E i \in DOMAIN t : t[i].rank = r

\* @type: (Seq({rank: Int, id: Int}), Int, Int) => Seq({rank: Int, id: Int});
Insert(t, r, id) ==
  LET \* @type: ({rank: Int, id: Int}) => Bool;
      Lo(e) == e.rank < r
      \* @type: ({rank: Int, id: Int}) => Bool;
      Hi(e) == e.rank > r
  IN IF Guarded /\ Has(t, r) THEN t
     ELSE SelectSeq(t, Lo) \o <<[rank |-> r, id |-> id]>> \o SelectSeq(t, Hi)

Init == img = <<>> /\ first = [x \in {} |-> 0]

Next ==
  \E r \in Int, id \in Int :
     /\ Len(img) < MaxImages
     /\ img' = Insert(img, r, id)
     /\ first' = IF r \in DOMAIN first THEN first ELSE [x \in DOMAIN first \cup {r} |-> IF x = r THEN id ELSE first[x]]

Sorted == \A i, j \in DOMAIN img : i < j => img[i].rank < img[j].rank
FirstKept == /\ \A i \in DOMAIN img : img[i].rank \in DOMAIN first /\ first[img[i].rank] = img[i].id
             /\ \A r \in DOMAIN first : Has(img, r)
IndInv == Sorted /\ FirstKept /\ Len(img) <= MaxImages

\* arbitrary state satisfying the invariant (for the inductive step)
IndInit == /\ img = Gen(4)
           /\ first = Gen(4)
           /\ IndInv
=============================================================================
