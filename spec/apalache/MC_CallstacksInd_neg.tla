----------------------- MODULE MC_CallstacksInd_neg -------------------------
MaxImages == 4
Guarded == FALSE
VARIABLES
  \* @type: Seq({rank: Int, id: Int});
  img,
  \* @type: Int -> Int;
  first
INSTANCE CallstacksInd
=============================================================================
