------------------------------- MODULE Render --------------------------------
(***************************************************************************************************)
(* Rendering rules of syscall / trap traces (pykdebugparser/trace_handlers/bsd.py, mach.py) for      *)
(* C09 and C10, on LABELLED renderings.  A rendering `name(p0, ..., pn), result` is abstracted by    *)
(* differential probing (harness/render.py) to, per parameter k:                                    *)
(*   kind  "num" | "path" | "sym"       ds / de / dl  the START words / END words / lookups whose    *)
(*   variation changes the parameter    eq  the START words the numeric value equals (in unsigned /  *)
(*   signed, 64 / 32 bit form) in every probe                                                       *)
(* and for the result part: res.ds / res.de / res.dl.                                               *)
(***************************************************************************************************)
EXTENDS Naturals, Sequences, FiniteSets, TLC

Set(sq) == {sq[i] : i \in 1..Len(sq)}

\* ---- C09 ------------------------------------------------------------------------------------------
ParamVerdict(p) ==
  IF Set(p.de) # {} THEN "call-part-depends-on-END"
  ELSE IF p.kind = "num" THEN
       (IF Set(p.dl) # {} THEN "number-depends-on-lookup"
        ELSE IF Set(p.eq) # {} /\ p.pos \notin Set(p.eq) THEN "shows-another-argument"
        ELSE IF ~(Set(p.ds) \subseteq {p.pos}) THEN "depends-on-another-argument"
        ELSE "ok")
  ELSE IF p.kind = "num-unstable" THEN "number-is-its-argument-only-sometimes"     \* e.g. a stale cached rendering
  ELSE IF p.kind = "path" THEN (IF Set(p.ds) # {} THEN "path-depends-on-argument" ELSE "ok")
  ELSE (IF Set(p.dl) # {} THEN "symbol-depends-on-lookup"
        ELSE IF Set(p.ds) # {} /\ p.pos \notin Set(p.ds) THEN "symbol-of-another-argument"
        ELSE "ok")

RECURSIVE FirstBad(_, _)
FirstBad(ps, i) == IF i > Len(ps) THEN "ok"
                   ELSE LET v == ParamVerdict(ps[i]) IN IF v # "ok" THEN v ELSE FirstBad(ps, i + 1)
PositionVerdict(o) == IF o.unstable THEN "rendering-depends-on-something-else-than-its-own-records" ELSE FirstBad(o.params, 1)

\* ---- C10: serialize_result (bsd.py), transcribed -------------------------------------------------
\* END words: e0 = error, e1 = return value.  KnownErr = the error numbers that have a name.
\* Variant (negative controls): "ok" | "swapped" (words exchanged) | "value-first" (precedence inverted)
\*                              | "both" (success value shown next to errno)
SerializeResult(variant, e0, e1, hasSuccessName, KnownErr) ==
  LET err == IF variant = "swapped" THEN e1 ELSE e0
      ret == IF variant = "swapped" THEN e0 ELSE e1
      errTxt == IF err \in KnownErr THEN [form |-> "errno-name", code |-> err] ELSE [form |-> "errno-num", code |-> err]
      valTxt == [form |-> "value", v |-> ret]
  IN CASE variant = "value-first" ->
            IF hasSuccessName THEN <<valTxt>> ELSE IF err # 0 THEN <<errTxt>> ELSE <<>>
       [] variant = "both" ->
            (IF err # 0 THEN <<errTxt>> ELSE <<>>) \o (IF hasSuccessName THEN <<valTxt>> ELSE <<>>)
       [] OTHER ->
            IF err # 0 THEN <<errTxt>> ELSE IF hasSuccessName THEN <<valTxt>> ELSE <<>>

\* the property on a (transcribed or observed) result: parts = Seq of [form, code | v]
ResultOK(parts, e0, e1) ==
  IF e0 # 0
  THEN Len(parts) = 1 /\ parts[1].form \in {"errno-name", "errno-num"} /\ parts[1].code = e0
  ELSE \A i \in 1..Len(parts) : parts[i].form = "value" /\ parts[i].v = e1
=============================================================================
