---------------------------- MODULE CodeTable_MC ------------------------------
(* M |= P for C19 (text half): every text of <= MaxLines lines over id tokens in all spellings      *)
(* (with / without 0x prefix, upper / lower case, leading zeros, 8-digit ids) x names x trailing    *)
(* comment, with duplicate ids.                                                                     *)
EXTENDS CodeTable
CONSTANT MaxLines
\* "10" "0x10" "0X1F" "1f" "ff" "FF" "0x0000001f" "0xfffffffc" "40c0004"
Toks == { <<49, 48>>, <<48, 120, 49, 48>>, <<48, 88, 49, 70>>, <<49, 102>>, <<102, 102>>, <<70, 70>>,
          <<48, 120, 48, 48, 48, 48, 48, 48, 49, 102>>, <<48, 120, 102, 102, 102, 102, 102, 102, 102, 99>>,
          <<52, 48, 99, 48, 48, 48, 52>> }
Lines == {[id |-> t, name |-> n, rest |-> r] : t \in Toks, n \in {"A", "B"}, r \in BOOLEAN}
RECURSIVE SeqsUpTo(_, _)
SeqsUpTo(S, n) == IF n = 0 THEN {<<>>}
                  ELSE LET P == SeqsUpTo(S, n - 1) IN P \cup {Append(p, x) : p \in {q \in P : Len(q) = n - 1}, x \in S}
VARIABLE text
Init == \E n \in 0..MaxLines : text \in [1..n -> Lines]      \* every text of up to MaxLines lines
Spec == Init /\ [][UNCHANGED text]_text
MapExact == Exactly(text, FromText(text))
\* spelling does not matter: the same value written differently is the same key
SpellingIrrelevant == Canon(<<48, 88, 49, 70>>) = Canon(<<49, 102>>) /\ Canon(<<49, 102>>) = Canon(<<48, 120, 48, 48, 48, 48, 48, 48, 49, 102>>)
                      /\ Canon(<<102, 102>>) = Canon(<<70, 70>>) /\ Canon(<<49, 48>>) # Canon(<<49, 102>>)
=============================================================================
