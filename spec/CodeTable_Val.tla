---------------------------- MODULE CodeTable_Val -----------------------------
(* code -> spec: texts given to from_trace_codes_text and the mapping it returned                    *)
(* (keys as canonical hex digit sequences, in the order of the dict).                               *)
EXTENDS CodeTable, Json, IOUtils
Obs == JsonDeserialize(IOEnv.OBS_FILE)
Verdict(o) ==
  LET m == FromText(o.lines) IN
  IF "err" \in DOMAIN o THEN "raised"
  ELSE IF {o.map[i][1] : i \in 1..Len(o.map)} # DOMAIN m THEN "key-set"
  ELSE IF \E i \in 1..Len(o.map) : m[o.map[i][1]] # o.map[i][2] THEN "name-or-last-wins"
  ELSE IF ~Exactly(o.lines, m) THEN "spec-inconsistent"
  ELSE "ok"
ASSUME PrintT(<<"VAL", Len(Obs)>>)
ASSUME \A i \in 1..Len(Obs) : LET v == Verdict(Obs[i]) IN v = "ok" \/ PrintT(<<"REJ", Obs[i].id, v>>)
VARIABLE dummy
Spec == dummy = 0 /\ [][UNCHANGED dummy]_dummy
=============================================================================
