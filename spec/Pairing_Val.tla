----------------------------- MODULE Pairing_Val -----------------------------
(* code -> spec for the TracesParser machine.  One observation = one execution of the real        *)
(* TracesParser.feed over a concrete stream, projected to the abstract alphabet:                   *)
(*   o.events[i]  the abstract event fed at step i (k = i)                                         *)
(*   o.steps[i]   what the code did: emit / win (stream indices of trace.ktraces) / f (fields) /   *)
(*                eff (table assignments in order) / err (exception type, if it raised)            *)
(*   o.mode       "win"  : emission timing and windows only (C04, C07)                              *)
(*                "full" : also fields and table assignments (C05, C08, C20)                        *)
(* The fold applies Pairing!Step and names the first failing clause.                               *)
EXTENDS Pairing, Json, IOUtils

Obs == JsonDeserialize(IOEnv.OBS_FILE)

MaySwallow(e) == e.cls \in FragClasses /\ e.q = QNONE

StrictlyIncreasing(w) == \A i \in 1..(Len(w) - 1) : w[i] < w[i + 1]

\* the delivered window equals the spec window up to stray ENDs (which the statement allows either way)
WinOK(got, exp, strays, evs) ==
  /\ Len(got) > 0
  /\ StrictlyIncreasing(got)
  /\ SelectSeq(got, LAMBDA k : k \notin strays) = exp
  /\ \A i \in 1..Len(got) : got[i] \in strays =>
        /\ got[i] > exp[1] /\ got[i] < exp[Len(exp)]
        /\ evs[got[i]].tid = evs[exp[1]].tid
        /\ Dom(evs[got[i]].cls) = Dom(evs[exp[1]].cls)

\* launch image lists: sorted by load address, same multiset; the order among EQUAL addresses is not pinned
ImgsOK(g, e) ==
  /\ Len(g) = Len(e)
  /\ \A i \in 1..(Len(g) - 1) : g[i].rank <= g[i + 1].rank
  /\ \A i \in 1..Len(e) : Cardinality({j \in 1..Len(g) : g[j] = e[i]}) = Cardinality({j \in 1..Len(e) : e[j] = e[i]})

FieldsOK(gf, ef, wild) ==
  /\ "c" \in DOMAIN gf /\ gf.c = ef.c
  /\ \A key \in DOMAIN ef \ wild : key \in DOMAIN gf /\
        (IF key = "imgs" THEN ImgsOK(gf[key], ef[key]) ELSE gf[key] = ef[key])

EffOK(ge, ee) ==
  /\ Len(ge) = Len(ee)
  /\ \A i \in 1..Len(ee) : ge[i].tbl = ee[i].tbl /\ ge[i].k = ee[i].k /\ ge[i].v = ee[i].v

\* fields the property does not pin (wildcards), by class
Wild(e0, win, f) ==
  CASE e0.cls \in PathClasses -> IF WellFormedLookups(win) THEN {} ELSE {"ps"}
    [] e0.cls = "LKP" -> IF WellFormedLookups(win) THEN {} ELSE {"path", "vid"}
    [] e0.cls = "VMF" -> {"undecodedFirst"} \cup (IF f.undecodedFirst THEN {"pid", "prot"} ELSE {})
    [] OTHER -> {}

StepVerdict(o, i, s, strays) ==
  LET e == o.events[i]
      g == o.steps[i]
      r == Step(s, e)
  \* an operation with an out-of-domain argument: its decoder may refuse it (the caller catches that and goes on); the
  \* records are still fed, the fold continues with the state Step gives
  IN IF "err" \in DOMAIN g THEN (IF "ood" \in DOMAIN e THEN "ok" ELSE "raised")
     ELSE IF MaySwallow(e) /\ o.mode # "full" THEN (IF g.emit /\ g.win # <<i>> THEN "window" ELSE "ok")
     ELSE IF MaySwallow(e) /\ g.emit THEN "fragment-trace"        \* C08: continuation records never emit
     ELSE IF g.emit # r.out.emit THEN (IF g.emit THEN "spurious-trace" ELSE "missing-trace")
     ELSE IF ~g.emit THEN (IF o.mode = "full" /\ ~EffOK(g.eff, r.eff) THEN "assignments" ELSE "ok")
     ELSE IF ~WinOK(g.win, r.out.win, strays, o.events) THEN "window"
     ELSE IF o.mode # "full" THEN "ok"
     ELSE LET win == [j \in 1..Len(r.out.win) |-> o.events[r.out.win[j]]]
          IN IF ~FieldsOK(g.f, r.out.f, Wild(win[1], win, r.out.f)) THEN "fields"
             ELSE IF ~EffOK(g.eff, r.eff) THEN "assignments"
             ELSE "ok"

RECURSIVE Fold(_, _, _, _)
Fold(o, i, s, strays) ==
  IF i > Len(o.events) THEN "ok"
  ELSE LET v == StepVerdict(o, i, s, strays)
           e == o.events[i]
           isStray == e.q = QEND /\ e.code \notin DOMAIN WinsOf(s, Dom(e.cls), e.tid)
       IN IF v # "ok" THEN v \o "@" \o ToString(i)
          ELSE Fold(o, i + 1, Step(s, e).s, IF isStray THEN strays \cup {i} ELSE strays)

Verdict(o) ==
  IF Len(o.steps) # Len(o.events) THEN "shape"
  ELSE Fold(o, 1, InitState, {})

ASSUME PrintT(<<"VAL", Len(Obs)>>)
ASSUME \A i \in 1..Len(Obs) : LET v == Verdict(Obs[i]) IN v = "ok" \/ PrintT(<<"REJ", Obs[i].id, v>>)

VARIABLE dummy
Spec == dummy = 0 /\ [][UNCHANGED dummy]_dummy
=============================================================================
