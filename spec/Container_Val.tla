---------------------------- MODULE Container_Val ----------------------------
(* code -> spec for the container reader.  One observation = a history of parses on ONE pair of     *)
(* shared tables (one PyKdebugParser / one KdBufParser): per parse the structural file value that   *)
(* was encoded to bytes, what the real parser yielded (record index / log fields), the tables and   *)
(* the metadata attributes afterwards.  The fold applies Container!ParseFile.                       *)
EXTENDS Container, Json, IOUtils

Obs == JsonDeserialize(IOEnv.OBS_FILE)

FnOf(pairs) == [k \in {pairs[i][1] : i \in 1..Len(pairs)} |->
                  (CHOOSE i \in 1..Len(pairs) : pairs[i][1] = k /\ \A j \in (i + 1)..Len(pairs) : pairs[j][1] # k) ]
ValOf(pairs, k) == pairs[CHOOSE i \in 1..Len(pairs) : pairs[i][1] = k][2]
SameTable(pairs, f) ==
  /\ {pairs[i][1] : i \in 1..Len(pairs)} = DOMAIN f
  /\ \A i \in 1..Len(pairs) : f[pairs[i][1]] = pairs[i][2]

YieldsOK(got, exp) ==
  /\ Len(got) = Len(exp)
  /\ \A i \in 1..Len(exp) : got[i].k = exp[i].k /\
        (IF exp[i].k = "ev" THEN got[i].id = exp[i].id
         ELSE got[i].msg = exp[i].msg /\ got[i].proc = exp[i].proc /\ got[i].tid = exp[i].tid /\ got[i].pid = exp[i].pid)

\* position of the first difference, for the replay message
ParseVerdict(p, st) ==
  LET r == ParseFile(st, p.file) IN
  IF "err" \in DOMAIN p THEN "raised"
  ELSE IF Len(p.yields) < Len(r.yields) THEN "missing-yield"
  ELSE IF Len(p.yields) > Len(r.yields) THEN "extra-yield"
  ELSE IF ~YieldsOK(p.yields, r.yields) THEN "yield-content-or-order"
  ELSE IF ~SameTable(p.tpid, r.st.tpid) THEN "threads_pids"
  ELSE IF ~SameTable(p.pname, r.st.pname) THEN "pids_names"
  ELSE IF p.file.ver = 3 /\ p.meta.codes # r.st.meta.codes THEN "trace_codes"
  ELSE IF p.file.ver = 3 /\ p.meta.kexts # r.st.meta.kexts THEN "kernel_extensions"
  ELSE IF p.file.ver = 3 /\ (p.meta.dyld.bins # r.st.meta.dyld.bins \/ p.meta.dyld.extra # r.st.meta.dyld.extra) THEN "dyld_modules"
  ELSE IF p.file.ver = 3 /\ p.meta.procs # r.st.meta.procs THEN "processes"
  ELSE IF p.file.ver = 3 /\ p.meta.images # r.st.meta.images THEN "images"
  ELSE "ok"

RECURSIVE Fold(_, _, _)
Fold(o, i, st) ==
  IF i > Len(o.parses) THEN "ok"
  ELSE LET v == ParseVerdict(o.parses[i], st) IN
       IF v # "ok" THEN v \o "@" \o ToString(i)
       ELSE Fold(o, i + 1, ParseFile(st, o.parses[i].file).st)

Verdict(o) == Fold(o, 1, InitReader)

ASSUME PrintT(<<"VAL", Len(Obs)>>)
ASSUME \A i \in 1..Len(Obs) : LET v == Verdict(Obs[i]) IN v = "ok" \/ PrintT(<<"REJ", Obs[i].id, v>>)

VARIABLE dummy
Spec == dummy = 0 /\ [][UNCHANGED dummy]_dummy
=============================================================================
