-------------------------------- MODULE Tables ---------------------------------
(* C17 - model checking of the EXTRACTED decoder configuration.  The harness exports, from the       *)
(* working tree at check time, the decoder tables and the bundled code table:                        *)
(*   fams   : Seq([fam, names (Seq)])            every handlers dictionary                            *)
(*   codes  : Seq([name, lowbits (Seq of id & 3), n])   for each table NAME the low bits of its ids    *)
(*   defined: Seq([fam, fn, registered])         every handle_* function of a family module          *)
(* and TLC evaluates the table invariants over all entries.                                           *)
EXTENDS Naturals, Sequences, FiniteSets, TLC, Json, IOUtils

T == JsonDeserialize(IOEnv.OBS_FILE)
SetOf(sq) == {sq[i] : i \in 1..Len(sq)}
FamNames(i) == SetOf(T.fams[i].names)
AllNames == UNION {FamNames(i) : i \in 1..Len(T.fams)}
CodeNames == {T.codes[i].name : i \in 1..Len(T.codes)}
LowBits(nm) == SetOf(T.codes[CHOOSE i \in 1..Len(T.codes) : T.codes[i].name = nm].lowbits)
Suffix == "_nocancel"

\* every registered decoder is reachable: its name occurs in the bundled table under an id with clear qualifier bits
NotInTable == {nm \in AllNames : nm \notin CodeNames}
NoCleanId == {nm \in AllNames \cap CodeNames : 0 \notin LowBits(nm)}
\* no two families claim the same name
Clashes == {nm \in AllNames : Cardinality({i \in 1..Len(T.fams) : nm \in FamNames(i)}) > 1}
\* X_nocancel decoded  =>  X decoded (pairs exported by the harness: [base, twin])
MissingBase == {T.twins[i].twin : i \in {j \in 1..Len(T.twins) : T.twins[j].base \notin AllNames}}
\* every decoder function a family module defines is registered
Unregistered == {T.defined[i].fn : i \in {j \in 1..Len(T.defined) : ~T.defined[j].registered}}

ASSUME PrintT(<<"VAL", 1>>)
ASSUME \A nm \in NotInTable : PrintT(<<"REJ", nm, "decoder-name-not-in-code-table">>)
ASSUME \A nm \in NoCleanId : PrintT(<<"REJ", nm, "decoder-id-has-qualifier-bits">>)
ASSUME \A nm \in Clashes : PrintT(<<"REJ", nm, "name-claimed-by-two-families">>)
ASSUME \A nm \in MissingBase : PrintT(<<"REJ", nm, "nocancel-twin-without-base-decoder">>)
ASSUME \A fn \in Unregistered : PrintT(<<"REJ", fn, "decoder-function-not-registered">>)
ASSUME PrintT(<<"COUNTS", Cardinality(AllNames), Cardinality(CodeNames), Len(T.twins), Len(T.defined)>>)

VARIABLE dummy
Spec == dummy = 0 /\ [][UNCHANGED dummy]_dummy
=============================================================================
