----------------------------- MODULE Pairing_MBT -----------------------------
(* spec -> code: export behaviours of Pairing_MC (inputs and the outputs the spec expects after    *)
(* every step) as JSON lines; the harness concretises them and steps the real TracesParser.         *)
EXTENDS Pairing_MC, Json

VARIABLE outs
mvars == <<s, hist, out, outs>>

MInit == Init /\ outs = <<>>
MNext == /\ Next
         /\ outs' = Append(outs, [emit |-> out'.emit,
                                  win |-> IF out'.emit THEN out'.win ELSE <<>>,
                                  stray |-> IsStray(hist', Len(hist')),
                                  swallow |-> MaySwallow(hist'[Len(hist')])])
MSpec == MInit /\ [][MNext]_mvars

Export ==
  Len(hist) = MaxLen =>
    PrintT(<<"BEH", ToJson([h |-> [i \in 1..Len(hist) |-> <<hist[i].tid, hist[i].code, hist[i].q>>], o |-> outs])>>)
=============================================================================
